// Package sync is the scheduler-aware stand-in for the standard sync package that the
// rewritten pebbles sources import instead of "sync".
package sync

import (
	rs "sync"

	"github.com/buildbuildio/pebbles/vrt"
)

type Locker = rs.Locker
type Map = rs.Map

type Mutex struct {
	st   vrt.MuState
	real rs.Mutex
}

func (m *Mutex) Lock() {
	if vrt.S == nil {
		m.real.Lock()
		return
	}
	vrt.MuLock(&m.st)
}
func (m *Mutex) TryLock() bool {
	if vrt.S == nil {
		return m.real.TryLock()
	}
	return vrt.MuTryLock(&m.st)
}
func (m *Mutex) Unlock() {
	if vrt.S == nil {
		m.real.Unlock()
		return
	}
	vrt.MuUnlock(&m.st)
}

type RWMutex struct {
	st   vrt.MuState
	real rs.RWMutex
}

func (m *RWMutex) Lock() {
	if vrt.S == nil {
		m.real.Lock()
		return
	}
	vrt.MuLock(&m.st)
}
func (m *RWMutex) TryLock() bool {
	if vrt.S == nil {
		return m.real.TryLock()
	}
	return vrt.MuTryLock(&m.st)
}
func (m *RWMutex) Unlock() {
	if vrt.S == nil {
		m.real.Unlock()
		return
	}
	vrt.MuUnlock(&m.st)
}
func (m *RWMutex) RLock() {
	if vrt.S == nil {
		m.real.RLock()
		return
	}
	vrt.MuRLock(&m.st)
}
func (m *RWMutex) TryRLock() bool {
	if vrt.S == nil {
		return m.real.TryRLock()
	}
	return vrt.MuTryRLock(&m.st)
}
func (m *RWMutex) RUnlock() {
	if vrt.S == nil {
		m.real.RUnlock()
		return
	}
	vrt.MuRUnlock(&m.st)
}

type rlocker RWMutex

func (r *rlocker) Lock()   { (*RWMutex)(r).RLock() }
func (r *rlocker) Unlock() { (*RWMutex)(r).RUnlock() }

func (m *RWMutex) RLocker() Locker { return (*rlocker)(m) }

type WaitGroup struct {
	st   vrt.WGState
	real rs.WaitGroup
}

func (w *WaitGroup) Add(d int) {
	if vrt.S == nil {
		w.real.Add(d)
		return
	}
	vrt.WGAdd(&w.st, d)
}
func (w *WaitGroup) Done() { w.Add(-1) }
func (w *WaitGroup) Wait() {
	if vrt.S == nil {
		w.real.Wait()
		return
	}
	vrt.WGWait(&w.st)
}

type Once struct {
	st   vrt.OnceState
	real rs.Once
}

func (o *Once) Do(f func()) {
	if vrt.S == nil {
		o.real.Do(f)
		return
	}
	vrt.OnceDo(&o.st, f)
}

type Cond struct {
	L    Locker
	st   vrt.CondState
	real *rs.Cond
}

func NewCond(l Locker) *Cond { return &Cond{L: l, real: rs.NewCond(l)} }

func (c *Cond) Wait() {
	if vrt.S == nil {
		c.real.Wait()
		return
	}
	vrt.CondWait(&c.st, c.L.Unlock, c.L.Lock)
}
func (c *Cond) Signal() {
	if vrt.S == nil {
		c.real.Signal()
		return
	}
	vrt.CondSignal(&c.st, false)
}
func (c *Cond) Broadcast() {
	if vrt.S == nil {
		c.real.Broadcast()
		return
	}
	vrt.CondSignal(&c.st, true)
}

// Pool models sync.Pool under the scheduler as one shared LIFO free list: Get hands out the
// most recently Put object (the behaviour of a single-P process, and the one that makes
// aliasing between a returned object and its next user visible); Get and Put are visible
// operations, so another goroutine can be scheduled between a Put and whatever the putter
// still does with the object.  The list lives in the execution, not in the Pool.
type Pool struct {
	New  func() any
	real rs.Pool
}

func (p *Pool) Get() any {
	if vrt.S == nil {
		if x := p.real.Get(); x != nil {
			return x
		}
		if p.New != nil {
			return p.New()
		}
		return nil
	}
	vrt.Touch("sync.Pool")
	l := vrt.Local(p)
	if l != nil && len(*l) > 0 {
		x := (*l)[len(*l)-1]
		*l = (*l)[:len(*l)-1]
		return x
	}
	if p.New != nil {
		return p.New()
	}
	return nil
}

func (p *Pool) Put(x any) {
	if vrt.S == nil {
		p.real.Put(x)
		return
	}
	vrt.Touch("sync.Pool")
	if x == nil {
		return
	}
	if l := vrt.Local(p); l != nil {
		*l = append(*l, x)
	}
}
