// Package atomic is the scheduler-aware stand-in for sync/atomic: every access is preceded
// by a visible scheduling point and then performed with the real atomic operation.
package atomic

import (
	ra "sync/atomic"
	"unsafe"

	"github.com/buildbuildio/pebbles/vrt"
)

func pt() { vrt.AtomicPoint("") }

func AddInt32(p *int32, d int32) int32                 { pt(); return ra.AddInt32(p, d) }
func AddInt64(p *int64, d int64) int64                 { pt(); return ra.AddInt64(p, d) }
func AddUint32(p *uint32, d uint32) uint32             { pt(); return ra.AddUint32(p, d) }
func AddUint64(p *uint64, d uint64) uint64             { pt(); return ra.AddUint64(p, d) }
func LoadInt32(p *int32) int32                         { pt(); return ra.LoadInt32(p) }
func LoadInt64(p *int64) int64                         { pt(); return ra.LoadInt64(p) }
func LoadUint32(p *uint32) uint32                      { pt(); return ra.LoadUint32(p) }
func LoadUint64(p *uint64) uint64                      { pt(); return ra.LoadUint64(p) }
func StoreInt32(p *int32, v int32)                     { pt(); ra.StoreInt32(p, v) }
func StoreInt64(p *int64, v int64)                     { pt(); ra.StoreInt64(p, v) }
func StoreUint32(p *uint32, v uint32)                  { pt(); ra.StoreUint32(p, v) }
func StoreUint64(p *uint64, v uint64)                  { pt(); ra.StoreUint64(p, v) }
func SwapInt32(p *int32, v int32) int32                { pt(); return ra.SwapInt32(p, v) }
func SwapInt64(p *int64, v int64) int64                { pt(); return ra.SwapInt64(p, v) }
func CompareAndSwapInt32(p *int32, o, n int32) bool    { pt(); return ra.CompareAndSwapInt32(p, o, n) }
func CompareAndSwapInt64(p *int64, o, n int64) bool    { pt(); return ra.CompareAndSwapInt64(p, o, n) }
func CompareAndSwapUint32(p *uint32, o, n uint32) bool { pt(); return ra.CompareAndSwapUint32(p, o, n) }
func CompareAndSwapUint64(p *uint64, o, n uint64) bool { pt(); return ra.CompareAndSwapUint64(p, o, n) }
func LoadPointer(p *unsafe.Pointer) unsafe.Pointer     { pt(); return ra.LoadPointer(p) }
func StorePointer(p *unsafe.Pointer, v unsafe.Pointer) { pt(); ra.StorePointer(p, v) }

type Int32 struct{ v ra.Int32 }

func (x *Int32) Load() int32                    { pt(); return x.v.Load() }
func (x *Int32) Store(v int32)                  { pt(); x.v.Store(v) }
func (x *Int32) Add(d int32) int32              { pt(); return x.v.Add(d) }
func (x *Int32) Swap(v int32) int32             { pt(); return x.v.Swap(v) }
func (x *Int32) CompareAndSwap(o, n int32) bool { pt(); return x.v.CompareAndSwap(o, n) }

type Int64 struct{ v ra.Int64 }

func (x *Int64) Load() int64                    { pt(); return x.v.Load() }
func (x *Int64) Store(v int64)                  { pt(); x.v.Store(v) }
func (x *Int64) Add(d int64) int64              { pt(); return x.v.Add(d) }
func (x *Int64) Swap(v int64) int64             { pt(); return x.v.Swap(v) }
func (x *Int64) CompareAndSwap(o, n int64) bool { pt(); return x.v.CompareAndSwap(o, n) }

type Uint32 struct{ v ra.Uint32 }

func (x *Uint32) Load() uint32                    { pt(); return x.v.Load() }
func (x *Uint32) Store(v uint32)                  { pt(); x.v.Store(v) }
func (x *Uint32) Add(d uint32) uint32             { pt(); return x.v.Add(d) }
func (x *Uint32) Swap(v uint32) uint32            { pt(); return x.v.Swap(v) }
func (x *Uint32) CompareAndSwap(o, n uint32) bool { pt(); return x.v.CompareAndSwap(o, n) }

type Uint64 struct{ v ra.Uint64 }

func (x *Uint64) Load() uint64                    { pt(); return x.v.Load() }
func (x *Uint64) Store(v uint64)                  { pt(); x.v.Store(v) }
func (x *Uint64) Add(d uint64) uint64             { pt(); return x.v.Add(d) }
func (x *Uint64) Swap(v uint64) uint64            { pt(); return x.v.Swap(v) }
func (x *Uint64) CompareAndSwap(o, n uint64) bool { pt(); return x.v.CompareAndSwap(o, n) }

type Bool struct{ v ra.Bool }

func (x *Bool) Load() bool                    { pt(); return x.v.Load() }
func (x *Bool) Store(v bool)                  { pt(); x.v.Store(v) }
func (x *Bool) Swap(v bool) bool              { pt(); return x.v.Swap(v) }
func (x *Bool) CompareAndSwap(o, n bool) bool { pt(); return x.v.CompareAndSwap(o, n) }

type Value struct{ v ra.Value }

func (x *Value) Load() interface{}                    { pt(); return x.v.Load() }
func (x *Value) Store(v interface{})                  { pt(); x.v.Store(v) }
func (x *Value) Swap(v interface{}) interface{}       { pt(); return x.v.Swap(v) }
func (x *Value) CompareAndSwap(o, n interface{}) bool { pt(); return x.v.CompareAndSwap(o, n) }

type Pointer[T any] struct{ v ra.Pointer[T] }

func (x *Pointer[T]) Load() *T                    { pt(); return x.v.Load() }
func (x *Pointer[T]) Store(v *T)                  { pt(); x.v.Store(v) }
func (x *Pointer[T]) Swap(v *T) *T                { pt(); return x.v.Swap(v) }
func (x *Pointer[T]) CompareAndSwap(o, n *T) bool { pt(); return x.v.CompareAndSwap(o, n) }
