package vrt

import (
	"context"
	"errors"
	"fmt"
	"io"
	"net"
	"os"
	"runtime"
	"time"
)

var (
	errClosedConn = errors.New("use of closed network connection")
	errEOF        = io.EOF
	errPipe       = errors.New("write: broken pipe")
)

// Conn is one end of an in-memory, scheduler-aware duplex connection.  Read blocks in
// the scheduler; every Write and Close is one visible operation.
type Conn struct {
	id         string
	in         []byte
	closed     bool
	peerClosed bool
	peer       *Conn
	nops       int

	Written    [][]byte // every successful Write of this end, in order
	CloseCalls int

	// RecvBuf > 0: at most RecvBuf unread bytes fit into this end's receive buffer; the peer's
	// Write delivers what fits and blocks for the rest until this end has read (back-pressure
	// of a slow reader).  0 = unbounded.
	RecvBuf int
	// write deadline of this end (SetWriteDeadline): a virtual-time timer; once it has fired,
	// pending and later writes fail with a timeout until the deadline is set anew
	wdl      *vtimer
	wexpired bool
	// read deadline of this end (SetReadDeadline), like the write deadline: once passed, Read fails with a timeout
	rdl      *vtimer
	rexpired bool
	// writer: the goroutine whose Write is under way (part of its buffer accepted); like the write
	// lock of a netFD it keeps the Writes of other goroutines out until that Write has returned
	writer *G
}

type timeoutError struct{}

func (timeoutError) Error() string   { return "i/o timeout" }
func (timeoutError) Timeout() bool   { return true }
func (timeoutError) Temporary() bool { return true }
func (timeoutError) Is(err error) bool {
	return err == os.ErrDeadlineExceeded
}

type addr string

func (a addr) Network() string { return "vrt" }
func (a addr) String() string  { return string(a) }

// Pipe creates a connected pair.  Must be called by a controlled goroutine.
func Pipe(name string) (*Conn, *Conn) {
	a := &Conn{id: name + ".a"}
	b := &Conn{id: name + ".b"}
	a.peer, b.peer = b, a
	return a, b
}

func (c *Conn) ID() string   { return c.id }
func (c *Conn) Closed() bool { return c.closed }

func (c *Conn) Read(p []byte) (int, error) {
	s := S
	if s == nil {
		panic("vrt.Conn used outside the scheduler")
	}
	if s.dead {
		runtime.Goexit()
	}
	if len(p) == 0 {
		return 0, nil
	}
	o := &op{kind: opRead, conn: c, buf: p}
	s.park(o)
	return o.rn, o.rerr
}

func (c *Conn) Write(p []byte) (int, error) {
	s := S
	if s == nil {
		panic("vrt.Conn used outside the scheduler")
	}
	if s.dead {
		return 0, errClosedConn
	}
	// one visible operation per accepted piece (the whole buffer unless the peer's receive buffer is bounded)
	total := 0
	for {
		o := &op{kind: opWrite, conn: c, buf: append([]byte(nil), p[total:]...)}
		s.park(o)
		total += o.rn
		if o.rerr != nil || total >= len(p) || s.dead {
			return total, o.rerr
		}
	}
}

func (c *Conn) Close() error {
	s := S
	if s == nil {
		panic("vrt.Conn used outside the scheduler")
	}
	if s.dead {
		return nil
	}
	o := &op{kind: opConnClose, conn: c}
	s.park(o)
	return o.rerr
}

func (c *Conn) LocalAddr() net.Addr           { return addr(c.id) }
func (c *Conn) RemoteAddr() net.Addr          { return addr(c.peer.id) }
func (c *Conn) SetDeadline(t time.Time) error { return nil }
func (c *Conn) SetReadDeadline(t time.Time) error {
	s := S
	if s == nil || s.dead {
		return nil
	}
	Touch("rdeadline:" + c.id)
	if c.rdl != nil {
		c.rdl.active = false
		c.rdl = nil
	}
	c.rexpired = false
	if t.IsZero() {
		return nil
	}
	d := t.Sub(Now())
	if d <= 0 {
		c.rexpired = true
		return nil
	}
	tm := &vtimer{deadline: s.now + d, active: true, conn: c, read: true}
	g := s.cur
	g.nobj++
	tm.id = fmt.Sprintf("%s~%d", g.id, g.nobj)
	s.timers = append(s.timers, tm)
	c.rdl = tm
	return nil
}

// SetWriteDeadline is a visible operation: the deadline is a property of the connection and
// also applies to a Write of another goroutine that is already blocked.  (SetDeadline is
// not modelled: only the dialer of gobwas/ws calls it, with a real-time value.)
func (c *Conn) SetWriteDeadline(t time.Time) error {
	s := S
	if s == nil || s.dead {
		return nil
	}
	Touch("wdeadline:" + c.id)
	if c.wdl != nil {
		c.wdl.active = false
		c.wdl = nil
	}
	c.wexpired = false
	if t.IsZero() {
		return nil
	}
	d := t.Sub(Now())
	if d <= 0 {
		c.wexpired = true
		return nil
	}
	tm := &vtimer{deadline: s.now + d, active: true, conn: c}
	g := s.cur
	g.nobj++
	tm.id = fmt.Sprintf("%s~%d", g.id, g.nobj)
	s.timers = append(s.timers, tm)
	c.wdl = tm
	return nil
}

var _ net.Conn = (*Conn)(nil)

// Dialer lets harnesses decide what an outgoing websocket dial connects to.
var DialHook func(network, address string) (net.Conn, error)

// NetDial is injected as ws.Dialer.NetDial by the rewriter.
func NetDial(ctx context.Context, network, address string) (net.Conn, error) {
	if DialHook == nil {
		return nil, fmt.Errorf("vrt: no DialHook installed (dial %s %s)", network, address)
	}
	return DialHook(network, address)
}

// Reg registers a freshly made channel with the scheduler (rewritten `make(chan …)`).
func Reg[C any](c C) C {
	if s := S; s != nil && !s.dead {
		p := chanPtr(c)
		if p != 0 {
			s.register(p, capOf(c))
		}
	}
	return c
}
