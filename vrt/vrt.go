// Package vrt is the cooperative runtime that the rewritten pebbles sources run on during
// schedule exploration (Engine B, see /verif/DESIGN.md §4).  It is delivered into the
// pebbles module as a *virtual package* through `go build -overlay`; nothing here is part
// of /repo.
//
// Two modes:
//   - controlled (a *Sched is installed in S): every visible operation parks the calling
//     goroutine and the scheduler decides which enabled transition happens next.  Exactly
//     one controlled goroutine runs at any time.
//   - pass-through (S == nil): every hook performs the real Go operation.  Used for the
//     free-running `-race` complement pass.
package vrt

import (
	"fmt"
	"hash/fnv"
	"reflect"
	"runtime"
	"sort"
	"time"
)

// ---------------------------------------------------------------------------------------
// errors that look like the runtime's

type RuntimeError string

func (e RuntimeError) Error() string { return string(e) }
func (e RuntimeError) RuntimeError() {}

// ---------------------------------------------------------------------------------------
// configuration / result of one execution

type Config struct {
	Prefix      []int // choices to replay; afterwards choice 0 everywhere
	Horizon     int   // max visible operations (0 = 20000)
	MapBranch   bool  // make map iteration order a choice (default: sorted, no choice)
	TimerBudget int   // how many timer/ticker firings the environment may perform
	StartBranch bool  // branching enabled from the start (otherwise wait for Explore(true))
	Trace       bool  // keep a readable log of visible operations
	NoKeys      bool  // do not compute state keys (faster when cache is off)
	KeyNoLast   bool  // leave the last-run goroutine out of the state key (sound when the bound is infinite)
	GroupDepth  int   // >0: goroutines sharing the first GroupDepth+1 id components form a group; inside a group only the first enabled goroutine is offered (coarse-grained interleaving of groups)
}

type Sched struct {
	Cfg Config

	gs  []*G
	cur *G
	ctl chan struct{}

	// recorded choice points (only where >1 alternative and branching is on)
	Choices []int
	Alts    []int
	Cost    []int   // deviations spent before each choice point
	AltCost [][]int // cost of each alternative at each choice point
	Keys    []StateKey

	Steps       int
	Fatal       string // process-fatal event (panic escaping a goroutine, runtime throw)
	FatalG      string // role/id of the goroutine it happened in
	RootPanic   string // panic that escaped the root (driver) goroutine
	Deadlock    bool
	Stuck       []string // "<goroutine>@<op>" for each non-daemon goroutine blocked at the end
	HorizonHit  bool
	Diverged    string
	Log         []string
	Transitions int

	dead      bool
	branching bool
	spent     int
	lastRun   *G

	chans   map[uintptr]*chanCore
	timers  []*vtimer
	now     time.Duration
	fired   int
	mapDev  int
	userObj map[string]*int
	nGo     int
	locals  map[interface{}]*[]interface{}
}

// S is the installed scheduler (nil = pass-through).
var S *Sched

type G struct {
	id     string
	Name   string
	wake   chan bool // true = run, false = abort
	op     *op
	done   bool
	hist   uint64
	idh    uint64
	nspawn int
	nobj   int
	Daemon bool
}

func hmix(h uint64, s string) uint64 {
	f := fnv.New64a()
	var b [8]byte
	for i := 0; i < 8; i++ {
		b[i] = byte(h >> (8 * i))
	}
	f.Write(b[:])
	f.Write([]byte(s))
	return f.Sum64()
}

func (g *G) note(s *Sched, x string) {
	g.hist = hmix(g.hist, x)
	if s.Cfg.Trace {
		s.Log = append(s.Log, g.label()+": "+x)
	}
}

func (g *G) label() string {
	if g.Name != "" {
		return g.Name + "(" + g.id + ")"
	}
	return g.id
}

// ---------------------------------------------------------------------------------------
// operations

type opKind int

const (
	opStart opKind = iota
	opYield
	opTouch
	opSend
	opRecv
	opClose
	opSelect
	opWGAdd
	opWGWait
	opLock
	opTryLock
	opUnlock
	opRLock
	opTryRLock
	opRUnlock
	opOnce
	opRead
	opWrite
	opConnClose
	opTimerWait // Sleep
	opMapOrder
	opCondWait
	opCondSignal
	opAtomic
	opIdle
)

var opNames = map[opKind]string{opStart: "start", opYield: "yield", opTouch: "touch", opSend: "send", opRecv: "recv",
	opClose: "close", opSelect: "select", opWGAdd: "wg.Add", opWGWait: "wg.Wait", opLock: "Lock", opTryLock: "TryLock",
	opUnlock: "Unlock", opRLock: "RLock", opTryRLock: "TryRLock", opRUnlock: "RUnlock", opOnce: "Once.Do",
	opRead: "conn.Read", opWrite: "conn.Write", opConnClose: "conn.Close", opTimerWait: "Sleep", opMapOrder: "maprange",
	opCondWait: "Cond.Wait", opCondSignal: "Cond.Signal", opAtomic: "atomic", opIdle: "WaitIdle"}

type chanCore struct {
	id     string
	cap    int
	buf    []interface{}
	closed bool
	nops   int
	native reflect.Value // valid => channel owned by un-instrumented code
	// the same native channel as a value that can be received from / sent to (a channel first met through a
	// `chan<- T` parameter is send-only as a reflect.Value, whatever the variable it came from allows)
	nativeR, nativeS reflect.Value
}

type Case struct {
	ch   *chanCore
	send bool
	val  interface{}
	into func(v interface{}, ok bool)
	nat  reflect.Value
}

type op struct {
	kind  opKind
	ch    *chanCore
	val   interface{}
	tag   string
	wg    *WGState
	mu    *MuState
	once  *OnceState
	conn  *Conn
	buf   []byte
	delta int
	cases []Case
	def   bool
	tm    *vtimer
	n     int
	cond  *CondState
	// results
	rval   interface{}
	rok    bool
	rindex int
	rn     int
	rerr   error
	panicV interface{}
}

// park hands the baton to the scheduler with the calling goroutine's next visible
// operation and returns when that operation has been performed.
func (s *Sched) park(o *op) {
	if s.dead {
		runtime.Goexit()
	}
	g := s.cur
	g.op = o
	s.ctl <- struct{}{}
	if run := <-g.wake; !run {
		runtime.Goexit()
	}
	if o.panicV != nil {
		panic(o.panicV)
	}
}

// ---------------------------------------------------------------------------------------
// goroutines

// Go starts f as a controlled goroutine.
func Go(f func()) { GoNamed("", f) }

func GoNamed(name string, f func()) *G {
	s := S
	if s == nil {
		go f()
		return nil
	}
	if s.dead {
		return nil
	}
	parent := s.cur
	parent.nspawn++
	g := &G{id: fmt.Sprintf("%s.%d", parent.id, parent.nspawn), Name: name, wake: make(chan bool)}
	g.op = &op{kind: opStart}
	s.gs = append(s.gs, g)
	s.nGo++
	parent.note(s, "go:"+g.id)
	go s.runG(g, f, false)
	return g
}

// GoDaemon starts a harness goroutine that may legitimately stay blocked at the end.
func GoDaemon(name string, f func()) {
	g := GoNamed(name, f)
	if g != nil {
		g.Daemon = true
	}
}

// SetName labels the calling goroutine (for failure signatures).
func SetName(name string) {
	if S != nil && !S.dead {
		S.cur.Name = name
	}
}

func (s *Sched) runG(g *G, f func(), root bool) {
	if run := <-g.wake; !run {
		g.done = true
		s.ctl <- struct{}{}
		return
	}
	normal := false
	defer func() {
		if !normal && !s.dead {
			if r := recover(); r != nil {
				msg := fmt.Sprintf("panic: %v", r)
				if root {
					if s.RootPanic == "" {
						s.RootPanic = msg
					}
				} else if s.Fatal == "" {
					s.Fatal = msg
					s.FatalG = g.label()
				}
			}
		} else if !normal {
			recover()
		}
		g.done = true
		g.op = nil
		s.ctl <- struct{}{}
	}()
	f()
	normal = true
}

// Yield is a visible operation with no effect (a scheduling point).
func Yield(tag string) {
	s := S
	if s == nil {
		runtime.Gosched()
		return
	}
	if s.dead {
		return
	}
	s.park(&op{kind: opYield, tag: tag})
}

// Touch is a visible operation on a named shared object: conflicting accesses made
// visible so that state caching distinguishes their orders.
func Touch(obj string) {
	s := S
	if s == nil || s.dead {
		return
	}
	s.park(&op{kind: opTouch, tag: obj})
}

// Local returns per-execution storage attached to key (nil in pass-through mode): state of
// modelled library objects (sync.Pool) must not survive from one execution into the next.
func Local(key interface{}) *[]interface{} {
	s := S
	if s == nil {
		return nil
	}
	if s.locals == nil {
		s.locals = map[interface{}]*[]interface{}{}
	}
	l := s.locals[key]
	if l == nil {
		l = new([]interface{})
		s.locals[key] = l
	}
	return l
}

// WaitIdle blocks until no other goroutine can make progress (harness actors use it to
// act only after the system has quiesced).
func WaitIdle() {
	s := S
	if s == nil || s.dead {
		return
	}
	s.park(&op{kind: opIdle})
}

// Explore switches branching on or off (exploration window, DESIGN §4.4).
func Explore(on bool) {
	if S != nil {
		S.branching = on
	}
}

// Fatalf records a runtime-throw-like fatal error and stops the calling goroutine.
func Fatalf(format string, a ...interface{}) {
	s := S
	if s == nil {
		panic(fmt.Sprintf("fatal error: "+format, a...))
	}
	if s.dead {
		return
	}
	if s.Fatal == "" {
		s.Fatal = fmt.Sprintf("fatal error: "+format, a...)
		s.FatalG = s.cur.label()
	}
	runtime.Goexit()
}

// ---------------------------------------------------------------------------------------
// channels

func chanPtr(c interface{}) uintptr {
	v := reflect.ValueOf(c)
	if !v.IsValid() || v.Kind() != reflect.Chan || v.IsNil() {
		return 0
	}
	return v.Pointer()
}

func (s *Sched) register(p uintptr, n int) *chanCore {
	g := s.cur
	g.nobj++
	cc := &chanCore{id: fmt.Sprintf("%s#%d", g.id, g.nobj), cap: n}
	s.chans[p] = cc
	return cc
}

// core returns the model of channel c; nil for a nil channel; a native wrapper for a
// channel that was not created through MakeChan.
func (s *Sched) core(c interface{}) *chanCore {
	p := chanPtr(c)
	if p == 0 {
		return nil
	}
	if cc, ok := s.chans[p]; ok {
		if cc.native.IsValid() {
			cc.seeNative(reflect.ValueOf(c))
		}
		return cc
	}
	cc := &chanCore{id: fmt.Sprintf("native%d", len(s.chans)), native: reflect.ValueOf(c)}
	cc.seeNative(cc.native)
	s.chans[p] = cc
	return cc
}

func (c *chanCore) seeNative(v reflect.Value) {
	if v.Type().ChanDir()&reflect.RecvDir != 0 {
		c.nativeR = v
	}
	if v.Type().ChanDir()&reflect.SendDir != 0 {
		c.nativeS = v
	}
}

func MakeChan[T any](n ...int) chan T {
	k := 0
	if len(n) > 0 {
		k = n[0]
	}
	c := make(chan T, k)
	if s := S; s != nil && !s.dead {
		s.register(chanPtr(c), k)
	}
	return c
}

func Send[T any](c chan<- T, v T) {
	s := S
	if s == nil {
		c <- v
		return
	}
	if s.dead {
		runtime.Goexit()
	}
	s.park(&op{kind: opSend, ch: s.core(c), val: v})
}

func Recv[T any](c <-chan T) T {
	v, _ := Recv2(c)
	return v
}

func Recv2[T any](c <-chan T) (T, bool) {
	s := S
	if s == nil {
		v, ok := <-c
		return v, ok
	}
	if s.dead {
		runtime.Goexit()
	}
	o := &op{kind: opRecv, ch: s.core(c)}
	s.park(o)
	var z T
	if o.rval == nil {
		return z, o.rok
	}
	return o.rval.(T), o.rok
}

func Close[T any](c chan<- T) {
	s := S
	if s == nil {
		close(c)
		return
	}
	if s.dead {
		return
	}
	if c == nil {
		panic(RuntimeError("close of nil channel"))
	}
	s.park(&op{kind: opClose, ch: s.core(c)})
}

func Len[T any](c chan T) int {
	s := S
	if s == nil || s.dead {
		return len(c)
	}
	cc := s.core(c)
	if cc == nil {
		return 0
	}
	return len(cc.buf)
}

func Cap[T any](c chan T) int { return cap(c) }

// Zero returns the zero value of a channel's element type (used by rewritten selects).
func Zero[T any](c <-chan T) T { var z T; return z }

func RecvCase[T any](c <-chan T, p *T, ok *bool) Case {
	cs := Case{into: func(v interface{}, k bool) {
		if p != nil {
			if v == nil {
				var z T
				*p = z
			} else {
				*p = v.(T)
			}
		}
		if ok != nil {
			*ok = k
		}
	}}
	if s := S; s != nil && !s.dead {
		cs.ch = s.core(c)
	} else {
		cs.nat = reflect.ValueOf(c)
	}
	return cs
}

func SendCase[T any](c chan<- T, v T) Case {
	cs := Case{send: true, val: v}
	if s := S; s != nil && !s.dead {
		cs.ch = s.core(c)
	} else {
		cs.nat = reflect.ValueOf(c)
	}
	return cs
}

// Select performs a select over cases; returns the chosen index, or -1 for default.
func Select(hasDefault bool, cases ...Case) int {
	s := S
	if s == nil {
		return realSelect(hasDefault, cases)
	}
	if s.dead {
		runtime.Goexit()
	}
	o := &op{kind: opSelect, cases: cases, def: hasDefault}
	s.park(o)
	return o.rindex
}

func realSelect(hasDefault bool, cases []Case) int {
	var rc []reflect.SelectCase
	for _, c := range cases {
		if c.send {
			rc = append(rc, reflect.SelectCase{Dir: reflect.SelectSend, Chan: c.nat, Send: reflect.ValueOf(c.val)})
		} else {
			rc = append(rc, reflect.SelectCase{Dir: reflect.SelectRecv, Chan: c.nat})
		}
	}
	if hasDefault {
		rc = append(rc, reflect.SelectCase{Dir: reflect.SelectDefault})
	}
	i, v, ok := reflect.Select(rc)
	if hasDefault && i == len(cases) {
		return -1
	}
	if !cases[i].send {
		if ok {
			cases[i].into(v.Interface(), true)
		} else {
			cases[i].into(nil, false)
		}
	}
	return i
}

// ---------------------------------------------------------------------------------------
// map iteration order

type KV[K comparable, V any] struct {
	K K
	M map[K]V
}

// MapOrder returns the keys of m in the order the explorer chose (default: sorted by
// their printed form).
func MapOrder[K comparable, V any](site string, m map[K]V) []KV[K, V] {
	keys := make([]K, 0, len(m))
	for k := range m {
		keys = append(keys, k)
	}
	s := S
	if s == nil || s.dead {
		out := make([]KV[K, V], len(keys))
		for i, k := range keys {
			out[i] = KV[K, V]{k, m}
		}
		return out
	}
	strs := make([]string, len(keys))
	idx := make([]int, len(keys))
	for i, k := range keys {
		strs[i] = fmt.Sprint(k)
		idx[i] = i
	}
	sort.SliceStable(idx, func(a, b int) bool { return strs[idx[a]] < strs[idx[b]] })
	n := len(keys)
	perm := 0
	if s.Cfg.MapBranch && s.branching && n >= 2 {
		o := &op{kind: opMapOrder, tag: site, n: n}
		s.park(o)
		perm = o.rindex
	}
	order := make([]int, n)
	switch {
	case perm < n: // rotation by perm
		for i := 0; i < n; i++ {
			order[i] = idx[(i+perm)%n]
		}
	default: // reverse
		for i := 0; i < n; i++ {
			order[i] = idx[n-1-i]
		}
	}
	out := make([]KV[K, V], n)
	for i, j := range order {
		out[i] = KV[K, V]{keys[j], m}
	}
	return out
}

// ---------------------------------------------------------------------------------------
// sync primitives' model state (the shims in vrt/vsync embed these)

type MuState struct {
	id      string
	writer  bool
	readers int
	nops    int
}

type WGState struct {
	id   string
	n    int
	nops int
}

type OnceState struct {
	id   string
	done bool
	busy bool
}

type CondState struct {
	id      string
	waiters []*G
	nops    int
}

func (s *Sched) objID(p *string) string {
	if *p == "" {
		g := s.cur
		g.nobj++
		*p = fmt.Sprintf("%s!%d", g.id, g.nobj)
	}
	return *p
}

func MuLock(m *MuState) {
	if s := S; s != nil && !s.dead {
		s.objID(&m.id)
		s.park(&op{kind: opLock, mu: m})
	}
}
func MuTryLock(m *MuState) bool {
	s := S
	if s == nil || s.dead {
		return true
	}
	s.objID(&m.id)
	o := &op{kind: opTryLock, mu: m}
	s.park(o)
	return o.rok
}
func MuUnlock(m *MuState) {
	if s := S; s != nil && !s.dead {
		s.objID(&m.id)
		s.park(&op{kind: opUnlock, mu: m})
	}
}
func MuRLock(m *MuState) {
	if s := S; s != nil && !s.dead {
		s.objID(&m.id)
		s.park(&op{kind: opRLock, mu: m})
	}
}
func MuTryRLock(m *MuState) bool {
	s := S
	if s == nil || s.dead {
		return true
	}
	s.objID(&m.id)
	o := &op{kind: opTryRLock, mu: m}
	s.park(o)
	return o.rok
}
func MuRUnlock(m *MuState) {
	if s := S; s != nil && !s.dead {
		s.objID(&m.id)
		s.park(&op{kind: opRUnlock, mu: m})
	}
}
func WGAdd(w *WGState, d int) {
	if s := S; s != nil && !s.dead {
		s.objID(&w.id)
		s.park(&op{kind: opWGAdd, wg: w, delta: d})
	}
}
func WGWait(w *WGState) {
	if s := S; s != nil {
		if s.dead {
			runtime.Goexit()
		}
		s.objID(&w.id)
		s.park(&op{kind: opWGWait, wg: w})
	}
}

// OnceDo implements sync.Once.Do under the scheduler.
func OnceDo(o *OnceState, f func()) {
	s := S
	if s == nil || s.dead {
		if !o.done {
			o.done = true
			f()
		}
		return
	}
	s.objID(&o.id)
	op := &op{kind: opOnce, once: o}
	s.park(op)
	if op.rok { // we are the one to run f
		defer func() {
			o.busy = false
			o.done = true
		}()
		f()
	}
}

func CondWait(c *CondState, unlock func(), lock func()) {
	s := S
	if s == nil || s.dead {
		return
	}
	s.objID(&c.id)
	c.waiters = append(c.waiters, s.cur)
	unlock()
	s.park(&op{kind: opCondWait, cond: c})
	lock()
}

func CondSignal(c *CondState, all bool) {
	s := S
	if s == nil || s.dead {
		return
	}
	s.objID(&c.id)
	n := 1
	if all {
		n = -1
	}
	s.park(&op{kind: opCondSignal, cond: c, n: n})
}

// AtomicPoint is the visible operation preceding every atomic access.
func AtomicPoint(tag string) {
	if s := S; s != nil && !s.dead {
		s.park(&op{kind: opAtomic, tag: tag})
	}
}

// ---------------------------------------------------------------------------------------
// virtual time

type vtimer struct {
	id       string
	deadline time.Duration
	period   time.Duration
	active   bool
	ch       chan time.Time // registered cap-1 channel, may be nil for AfterFunc/Sleep
	fn       func()
	sleeper  *G
	conn     *Conn // write (read: read) deadline of a connection
	read     bool
}

var epoch = time.Date(2026, 1, 1, 0, 0, 0, 0, time.UTC)

func Controlled() bool { return S != nil && !S.dead }

// Now returns the virtual time.
func Now() time.Time {
	s := S
	if s == nil {
		return time.Now()
	}
	return epoch.Add(s.now)
}

// AdvanceClock moves the virtual clock (driver-controlled, e.g. past a cache TTL).
func AdvanceClock(d time.Duration) {
	if s := S; s != nil {
		s.now += d
	}
}

func NewVTimer(d, period time.Duration, fn func()) (*vtimer, chan time.Time) {
	s := S
	t := &vtimer{deadline: s.now + d, period: period, active: true, fn: fn}
	g := s.cur
	g.nobj++
	t.id = fmt.Sprintf("%s~%d", g.id, g.nobj)
	if fn == nil {
		t.ch = MakeChan[time.Time](1)
	}
	s.timers = append(s.timers, t)
	return t, t.ch
}

func (t *vtimer) Stop() bool {
	was := t.active
	t.active = false
	return was
}

func (t *vtimer) Reset(d, period time.Duration) bool {
	was := t.active
	t.active = true
	t.deadline = S.now + d
	t.period = period
	return was
}

func Sleep(d time.Duration) {
	s := S
	if s == nil {
		time.Sleep(d)
		return
	}
	if s.dead {
		runtime.Goexit()
	}
	t := &vtimer{deadline: s.now + d, active: true, sleeper: s.cur}
	g := s.cur
	g.nobj++
	t.id = fmt.Sprintf("%s~%d", g.id, g.nobj)
	s.timers = append(s.timers, t)
	s.park(&op{kind: opTimerWait, tm: t})
}

// ---------------------------------------------------------------------------------------
// scheduler core

type trans struct {
	g       *G
	variant int  // select case index / receiver index / map permutation; -1 default
	partner *G   // rendezvous partner (receiver)
	pcase   int  // partner's select case index, -1 for plain recv/send
	psend   bool // partner is a parked sender completed by this (non-blocking) select
	timer   *vtimer
	forced  bool
}

func (s *Sched) receiversOn(c *chanCore, except *G) (out []trans) {
	for _, g := range s.gs {
		if g == except || g.op == nil || g.done {
			continue
		}
		if g.op.kind == opRecv && g.op.ch == c {
			out = append(out, trans{partner: g, pcase: -1})
		}
		if g.op.kind == opSelect {
			for i, cs := range g.op.cases {
				if !cs.send && cs.ch == c {
					out = append(out, trans{partner: g, pcase: i})
					break
				}
			}
		}
	}
	return
}

// sendersOn lists goroutines parked sending on c (used only for non-blocking selects:
// a parked sender may or may not already be enqueued, so both the rendezvous and the
// default branch are possible behaviours).
func (s *Sched) sendersOn(c *chanCore, except *G) (out []trans) {
	for _, g := range s.gs {
		if g == except || g.op == nil || g.done {
			continue
		}
		if g.op.kind == opSend && g.op.ch == c {
			out = append(out, trans{partner: g, pcase: -1, psend: true})
		}
		if g.op.kind == opSelect {
			for i, cs := range g.op.cases {
				if cs.send && cs.ch == c {
					out = append(out, trans{partner: g, pcase: i, psend: true})
					break
				}
			}
		}
	}
	return out
}

func nativeReady(c *chanCore) (interface{}, bool, bool) {
	if !c.nativeR.IsValid() {
		return nil, false, false
	}
	i, v, ok := reflect.Select([]reflect.SelectCase{{Dir: reflect.SelectRecv, Chan: c.nativeR}, {Dir: reflect.SelectDefault}})
	if i == 1 {
		return nil, false, false
	}
	if ok {
		return v.Interface(), true, true
	}
	return nil, false, true
}

// transitionsOf lists the enabled transitions of goroutine g.
func (s *Sched) transitionsOf(g *G) []trans {
	o := g.op
	if o == nil || g.done {
		return nil
	}
	one := []trans{{g: g}}
	switch o.kind {
	case opStart, opYield, opTouch, opClose, opWGAdd, opTryLock, opTryRLock, opUnlock, opRUnlock, opConnClose, opCondSignal, opAtomic:
		return one
	case opWrite:
		c := o.conn
		if c.writer != nil && c.writer != g {
			return nil
		}
		if c.closed || c.peer.closed || c.wexpired || c.peer.RecvBuf == 0 || len(c.peer.in) < c.peer.RecvBuf || len(o.buf) == 0 {
			return one
		}
	case opMapOrder:
		n := o.n
		k := n + 1
		if n == 2 {
			k = 2
		}
		out := make([]trans, k)
		for i := range out {
			out[i] = trans{g: g, variant: i}
		}
		return out
	case opLock:
		if !o.mu.writer && o.mu.readers == 0 {
			return one
		}
	case opRLock:
		if !o.mu.writer {
			return one
		}
	case opOnce:
		if !o.once.busy {
			return one
		}
	case opWGWait:
		if o.wg.n == 0 {
			return one
		}
	case opCondWait:
		for _, w := range o.cond.waiters {
			if w == g {
				return nil
			}
		}
		return one
	case opTimerWait:
		return nil // completed by the timer firing
	case opRead:
		if o.conn.closed || len(o.conn.in) > 0 || o.conn.peerClosed || o.conn.rexpired {
			return one
		}
	case opSend:
		if o.ch == nil {
			return nil
		}
		if o.ch.native.IsValid() {
			return one
		}
		if o.ch.closed {
			return one
		}
		if len(o.ch.buf) < o.ch.cap {
			return one
		}
		rs := s.receiversOn(o.ch, g)
		for i := range rs {
			rs[i].g = g
		}
		return rs
	case opRecv:
		if o.ch == nil {
			return nil
		}
		if o.ch.native.IsValid() {
			if v, ok, ready := nativeReady(o.ch); ready {
				o.rval, o.rok = v, ok
				o.tag = "ready"
				return one
			}
			return nil
		}
		if len(o.ch.buf) > 0 || o.ch.closed {
			return one
		}
	case opSelect:
		var out []trans
		certain := false
		for i, cs := range o.cases {
			if cs.ch == nil {
				continue
			}
			if cs.send {
				if cs.ch.native.IsValid() || cs.ch.closed || len(cs.ch.buf) < cs.ch.cap {
					out = append(out, trans{g: g, variant: i})
					certain = true
					continue
				}
				for _, r := range s.receiversOn(cs.ch, g) {
					r.g, r.variant = g, i
					out = append(out, r)
				}
			} else {
				if cs.ch.native.IsValid() {
					if v, ok, ready := nativeReady(cs.ch); ready {
						o.rval, o.rok = v, ok
						out = append(out, trans{g: g, variant: i})
						certain = true
					}
					continue
				}
				if len(cs.ch.buf) > 0 || cs.ch.closed {
					out = append(out, trans{g: g, variant: i})
					certain = true
				} else if o.def {
					for _, sd := range s.sendersOn(cs.ch, g) {
						sd.g, sd.variant = g, i
						out = append(out, sd)
					}
				}
			}
		}
		if o.def && !certain {
			out = append(out, trans{g: g, variant: -1})
		}
		return out
	}
	return nil
}

func (s *Sched) fatal(g *G, msg string) {
	if s.Fatal == "" {
		s.Fatal = "fatal error: " + msg
		s.FatalG = g.label()
	}
}

// perform executes transition t; returns the goroutines to resume in order.
func (s *Sched) perform(t trans) []*G {
	if t.timer != nil {
		return s.fire(t.timer)
	}
	g := t.g
	o := g.op
	switch o.kind {
	case opStart:
		g.note(s, "start")
	case opYield:
		g.note(s, "yield:"+o.tag)
	case opIdle:
		g.note(s, "idle")
	case opAtomic:
		g.note(s, "atomic:"+o.tag)
	case opTouch:
		p := s.userObj[o.tag]
		if p == nil {
			p = new(int)
			s.userObj[o.tag] = p
		}
		*p++
		g.note(s, fmt.Sprintf("touch:%s@%d", o.tag, *p))
	case opMapOrder:
		o.rindex = t.variant
		g.note(s, fmt.Sprintf("maporder:%s:%d", o.tag, t.variant))
	case opClose:
		c := o.ch
		if c.native.IsValid() {
			func() {
				defer func() {
					if r := recover(); r != nil {
						o.panicV = r
					}
				}()
				if c.nativeS.IsValid() {
					c.nativeS.Close()
				} else {
					c.native.Close()
				}
			}()
			g.note(s, "close:"+c.id)
			break
		}
		c.nops++
		if c.closed {
			o.panicV = RuntimeError("close of closed channel")
			g.note(s, fmt.Sprintf("closeclosed:%s@%d", c.id, c.nops))
			break
		}
		c.closed = true
		g.note(s, fmt.Sprintf("close:%s@%d", c.id, c.nops))
	case opWGAdd:
		w := o.wg
		w.nops++
		w.n += o.delta
		if w.n < 0 {
			o.panicV = RuntimeError("sync: negative WaitGroup counter")
		}
		g.note(s, fmt.Sprintf("wg%+d:%s=%d@%d", o.delta, w.id, w.n, w.nops))
	case opWGWait:
		o.wg.nops++
		g.note(s, fmt.Sprintf("wgwait:%s@%d", o.wg.id, o.wg.nops))
	case opLock:
		o.mu.nops++
		o.mu.writer = true
		g.note(s, fmt.Sprintf("lock:%s@%d", o.mu.id, o.mu.nops))
	case opTryLock:
		o.mu.nops++
		o.rok = !o.mu.writer && o.mu.readers == 0
		if o.rok {
			o.mu.writer = true
		}
		g.note(s, fmt.Sprintf("trylock:%s=%v@%d", o.mu.id, o.rok, o.mu.nops))
	case opUnlock:
		o.mu.nops++
		if !o.mu.writer {
			s.fatal(g, "sync: unlock of unlocked mutex")
			return nil
		}
		o.mu.writer = false
		g.note(s, fmt.Sprintf("unlock:%s@%d", o.mu.id, o.mu.nops))
	case opRLock:
		o.mu.nops++
		o.mu.readers++
		g.note(s, fmt.Sprintf("rlock:%s@%d", o.mu.id, o.mu.nops))
	case opTryRLock:
		o.mu.nops++
		o.rok = !o.mu.writer
		if o.rok {
			o.mu.readers++
		}
		g.note(s, fmt.Sprintf("tryrlock:%s=%v@%d", o.mu.id, o.rok, o.mu.nops))
	case opRUnlock:
		o.mu.nops++
		if o.mu.readers <= 0 {
			s.fatal(g, "sync: RUnlock of unlocked RWMutex")
			return nil
		}
		o.mu.readers--
		g.note(s, fmt.Sprintf("runlock:%s@%d", o.mu.id, o.mu.nops))
	case opOnce:
		if !o.once.done {
			o.once.busy = true
			o.rok = true
		}
		g.note(s, fmt.Sprintf("once:%s=%v", o.once.id, o.rok))
	case opCondWait:
		g.note(s, "condwake:"+o.cond.id)
	case opCondSignal:
		c := o.cond
		c.nops++
		if o.n < 0 {
			c.waiters = nil
		} else if len(c.waiters) > 0 {
			c.waiters = c.waiters[1:]
		}
		g.note(s, fmt.Sprintf("signal:%s@%d", c.id, c.nops))
	case opRead:
		c := o.conn
		c.nops++
		switch {
		case c.closed:
			o.rerr = errClosedConn
		case c.rexpired:
			o.rerr = timeoutError{}
		case len(c.in) > 0:
			o.rn = copy(o.buf, c.in)
			c.in = c.in[o.rn:]
		default:
			o.rerr = errEOF
		}
		g.note(s, fmt.Sprintf("read:%s=%d,%v@%d", c.id, o.rn, o.rerr != nil, c.nops))
	case opWrite:
		c := o.conn
		c.nops++
		switch {
		case c.closed:
			o.rerr = errClosedConn
		case c.wexpired:
			o.rerr = timeoutError{}
		case c.peer.closed:
			o.rerr = errPipe
		default:
			n := len(o.buf)
			if lim := c.peer.RecvBuf; lim > 0 && n > lim-len(c.peer.in) {
				n = lim - len(c.peer.in)
			}
			c.peer.in = append(c.peer.in, o.buf[:n]...)
			c.peer.nops++
			o.rn = n
			c.Written = append(c.Written, append([]byte(nil), o.buf[:n]...))
		}
		if o.rerr == nil && o.rn < len(o.buf) {
			c.writer = g
		} else {
			c.writer = nil
		}
		g.note(s, fmt.Sprintf("write:%s=%d@%d", c.id, o.rn, c.nops))
	case opConnClose:
		c := o.conn
		c.nops++
		if c.closed {
			o.rerr = errClosedConn
		}
		c.closed = true
		c.CloseCalls++
		c.peer.peerClosed = true
		c.peer.nops++
		g.note(s, fmt.Sprintf("connclose:%s@%d", c.id, c.nops))
	case opSend:
		c := o.ch
		if c.native.IsValid() {
			func() {
				defer func() {
					if r := recover(); r != nil {
						o.panicV = r
					}
				}()
				if !c.nativeS.IsValid() || !c.nativeS.TrySend(reflect.ValueOf(o.val)) {
					s.fatal(g, "vrt: blocking send on a native channel is not modelled")
				}
			}()
			g.note(s, "send:"+c.id)
			break
		}
		c.nops++
		if c.closed {
			o.panicV = RuntimeError("send on closed channel")
			g.note(s, fmt.Sprintf("sendclosed:%s@%d", c.id, c.nops))
			break
		}
		if t.partner != nil {
			r := t.partner
			if t.pcase < 0 {
				r.op.rval, r.op.rok = o.val, true
			} else {
				r.op.rindex = t.pcase
				r.op.cases[t.pcase].into(o.val, true)
			}
			g.note(s, fmt.Sprintf("send:%s>%s@%d", c.id, r.id, c.nops))
			r.note(s, fmt.Sprintf("recv:%s<%s:%s@%d", c.id, g.id, valStr(o.val), c.nops))
			return []*G{g, r}
		}
		c.buf = append(c.buf, o.val)
		g.note(s, fmt.Sprintf("send:%s@%d", c.id, c.nops))
	case opRecv:
		c := o.ch
		if c.native.IsValid() {
			g.note(s, fmt.Sprintf("recvnative:%s:%v", c.id, o.rok))
			break
		}
		c.nops++
		if len(c.buf) > 0 {
			o.rval, o.rok = c.buf[0], true
			c.buf = c.buf[1:]
			g.note(s, fmt.Sprintf("recv:%s:%s@%d", c.id, valStr(o.rval), c.nops))
		} else {
			o.rval, o.rok = nil, false
			g.note(s, fmt.Sprintf("recvclosed:%s@%d", c.id, c.nops))
		}
	case opSelect:
		if t.variant < 0 {
			o.rindex = -1
			g.note(s, "seldefault")
			break
		}
		cs := o.cases[t.variant]
		c := cs.ch
		o.rindex = t.variant
		if cs.send {
			c.nops++
			if c.closed {
				o.panicV = RuntimeError("send on closed channel")
				g.note(s, fmt.Sprintf("selsendclosed:%d:%s@%d", t.variant, c.id, c.nops))
				break
			}
			if t.partner != nil {
				r := t.partner
				if t.pcase < 0 {
					r.op.rval, r.op.rok = cs.val, true
				} else {
					r.op.rindex = t.pcase
					r.op.cases[t.pcase].into(cs.val, true)
				}
				g.note(s, fmt.Sprintf("selsend:%d:%s>%s@%d", t.variant, c.id, r.id, c.nops))
				r.note(s, fmt.Sprintf("recv:%s<%s:%s@%d", c.id, g.id, valStr(cs.val), c.nops))
				return []*G{g, r}
			}
			c.buf = append(c.buf, cs.val)
			g.note(s, fmt.Sprintf("selsend:%d:%s@%d", t.variant, c.id, c.nops))
			break
		}
		if c.native.IsValid() {
			cs.into(o.rval, o.rok)
			g.note(s, fmt.Sprintf("selnative:%d:%v", t.variant, o.rok))
			break
		}
		c.nops++
		if t.psend {
			snd := t.partner
			var v interface{}
			if t.pcase < 0 {
				v = snd.op.val
			} else {
				v = snd.op.cases[t.pcase].val
				snd.op.rindex = t.pcase
			}
			cs.into(v, true)
			g.note(s, fmt.Sprintf("selrecv:%d:%s<%s:%s@%d", t.variant, c.id, snd.id, valStr(v), c.nops))
			snd.note(s, fmt.Sprintf("send:%s>%s@%d", c.id, g.id, c.nops))
			return []*G{g, snd}
		}
		if len(c.buf) > 0 {
			v := c.buf[0]
			c.buf = c.buf[1:]
			cs.into(v, true)
			g.note(s, fmt.Sprintf("selrecv:%d:%s:%s@%d", t.variant, c.id, valStr(v), c.nops))
		} else {
			cs.into(nil, false)
			g.note(s, fmt.Sprintf("selrecvclosed:%d:%s@%d", t.variant, c.id, c.nops))
		}
	default:
		panic(fmt.Sprintf("vrt: perform: bad op %d", o.kind))
	}
	return []*G{g}
}

func valStr(v interface{}) string {
	switch x := v.(type) {
	case nil:
		return "nil"
	case error:
		return "err:" + x.Error()
	case string, int, int64, bool, struct{}, float64:
		return fmt.Sprint(x)
	}
	rv := reflect.ValueOf(v)
	if rv.Kind() == reflect.Ptr {
		if rv.IsNil() {
			return "nilptr"
		}
		return "ptr"
	}
	return rv.Kind().String()
}

func (s *Sched) fire(t *vtimer) []*G {
	if t.sleeper == nil && t.conn == nil {
		s.fired++
	}
	if t.deadline > s.now {
		s.now = t.deadline
	}
	if t.period > 0 {
		t.deadline += t.period
	} else {
		t.active = false
	}
	if t.sleeper != nil {
		t.sleeper.note(s, "wake:"+t.id)
		return []*G{t.sleeper}
	}
	if t.conn != nil {
		// the deadline of a connection has passed: a blocked Write / Read becomes enabled (and fails)
		if t.read {
			t.conn.rexpired = true
		} else {
			t.conn.wexpired = true
		}
		t.conn.nops++
		return nil
	}
	if t.fn != nil {
		// AfterFunc: run fn as a new goroutine spawned by the environment
		env := s.gs[0]
		save := s.cur
		s.cur = env
		GoNamed("afterfunc", t.fn)
		s.cur = save
		return nil
	}
	cc := s.chans[chanPtr(t.ch)]
	if len(cc.buf) < cc.cap {
		cc.buf = append(cc.buf, epoch.Add(s.now))
		cc.nops++
	}
	return nil
}

// StateKey identifies a scheduler state up to Mazurkiewicz equivalence: a commutative
// combination of (goroutine id, hash of that goroutine's own history of visible
// operations and observed results), plus the last-run goroutine (bounded search only)
// and the environment counters.
type StateKey struct {
	Sum, Xor uint64
	Last     uint64
	Env      uint64
}

func (s *Sched) stateKey() StateKey {
	var k StateKey
	for _, g := range s.gs {
		h := g.hist
		if g.done {
			h = 0xd0ed0ed0e
		}
		if g.idh == 0 {
			g.idh = hmix(0x9e3779b97f4a7c15, g.id)
		}
		m := (g.idh ^ h) * 0xff51afd7ed558ccd
		m ^= m >> 33
		m = (m + g.idh) * 0xc4ceb9fe1a85ec53
		k.Sum += m
		k.Xor ^= m*31 + h
	}
	if s.lastRun != nil && !s.Cfg.KeyNoLast {
		if s.lastRun.idh == 0 {
			s.lastRun.idh = hmix(0x9e3779b97f4a7c15, s.lastRun.id)
		}
		k.Last = s.lastRun.idh
	}
	k.Env = uint64(s.fired)<<40 ^ uint64(s.now)
	return k
}

// Run executes body under a fresh scheduler following cfg.Prefix and then the default
// choice everywhere.  It returns after every controlled goroutine has been run to
// completion or torn down.
func Run(cfg Config, body func()) *Sched {
	s := &Sched{Cfg: cfg, ctl: make(chan struct{}), chans: map[uintptr]*chanCore{}, userObj: map[string]*int{}}
	if s.Cfg.Horizon == 0 {
		s.Cfg.Horizon = 20000
	}
	s.branching = cfg.StartBranch
	S = s
	root := &G{id: "0", Name: "driver", wake: make(chan bool)}
	s.gs = []*G{root}
	root.op = &op{kind: opStart}
	go s.runG(root, body, true)

	resume := func(g *G) {
		s.cur = g
		g.op = nil
		g.wake <- true
		<-s.ctl
	}
	s.lastRun = root

	for s.Fatal == "" && s.RootPanic == "" {
		var ts []trans
		groupMode := false
		// canonical order: the goroutine that ran last first, then creation order
		lastEnabled := false
		if s.lastRun != nil && !s.lastRun.done {
			lt := s.transitionsOf(s.lastRun)
			if len(lt) > 0 {
				lastEnabled = true
				ts = append(ts, lt...)
			}
		}
		for _, g := range s.gs {
			if g == s.lastRun || g.done {
				continue
			}
			ts = append(ts, s.transitionsOf(g)...)
		}
		if s.Cfg.GroupDepth > 0 && s.branching {
			// groups behave like threads: inside a group only the first enabled goroutine is
			// offered; leaving a group that still has an enabled goroutine is a preemption
			seen := map[string]*G{}
			lastGroup := ""
			if s.lastRun != nil {
				lastGroup = groupOf(s.lastRun.id, s.Cfg.GroupDepth)
			}
			var own, others []trans
			for _, t := range ts {
				grp := groupOf(t.g.id, s.Cfg.GroupDepth)
				if first, ok := seen[grp]; ok && first != t.g {
					continue
				}
				seen[grp] = t.g
				if grp == lastGroup {
					own = append(own, t)
				} else {
					others = append(others, t)
				}
			}
			ts = append(own, others...)
			lastEnabled = len(own) > 0
			groupMode = true
		}
		if len(ts) == 0 {
			for _, g := range s.gs {
				if !g.done && g.op != nil && g.op.kind == opIdle {
					ts = append(ts, trans{g: g})
					break
				}
			}
		}
		nG := len(ts)
		// environment: timer firings (sleepers are always eligible, tickers/timers within budget)
		{
			var best *vtimer
			for _, t := range s.timers {
				if !t.active || (t.sleeper == nil && t.conn == nil && s.fired >= s.Cfg.TimerBudget) {
					continue
				}
				if nG == 0 {
					if best == nil || t.deadline < best.deadline {
						best = t
					}
				} else if s.branching {
					ts = append(ts, trans{timer: t})
				}
			}
			if nG == 0 && best != nil {
				ts = append(ts, trans{timer: best, forced: true})
			}
		}
		if len(ts) == 0 {
			for _, g := range s.gs {
				if !g.done && !g.Daemon {
					s.Deadlock = true
					s.Stuck = append(s.Stuck, g.label()+"@"+opNames[g.op.kind])
				}
			}
			break
		}
		pick := 0
		if len(ts) > 1 && s.branching {
			costs := make([]int, len(ts))
			for i, t := range ts {
				switch {
				case t.timer != nil:
					if !t.forced {
						costs[i] = 1
					}
				case t.g.op.kind == opMapOrder:
					if t.variant != 0 {
						costs[i] = 1
					}
					if t.g != s.lastRun && lastEnabled {
						costs[i]++
					}
				case groupMode:
					if lastEnabled && s.lastRun != nil && groupOf(t.g.id, s.Cfg.GroupDepth) != groupOf(s.lastRun.id, s.Cfg.GroupDepth) {
						costs[i] = 1
					}
				case t.g != s.lastRun && lastEnabled:
					costs[i] = 1
				}
			}
			k := len(s.Choices)
			if k < len(s.Cfg.Prefix) {
				pick = s.Cfg.Prefix[k]
				if pick >= len(ts) {
					s.Diverged = fmt.Sprintf("choice %d out of range %d at point %d", pick, len(ts), k)
					break
				}
			}
			s.Choices = append(s.Choices, pick)
			s.Alts = append(s.Alts, len(ts))
			s.Cost = append(s.Cost, s.spent)
			s.AltCost = append(s.AltCost, costs)
			if !s.Cfg.NoKeys {
				s.Keys = append(s.Keys, s.stateKey())
			}
			s.spent += costs[pick]
		}
		t := ts[pick]
		s.Steps++
		s.Transitions++
		if s.Steps > s.Cfg.Horizon {
			s.HorizonHit = true
			break
		}
		if t.g != nil {
			s.cur = t.g
		}
		for _, r := range s.perform(t) {
			resume(r)
			if s.Fatal != "" || s.RootPanic != "" {
				break
			}
		}
		if t.g != nil {
			s.lastRun = t.g
		}
	}
	// tear down whatever is still parked, one goroutine at a time
	s.dead = true
	for i := 0; i < len(s.gs); i++ {
		g := s.gs[i]
		if g.done {
			continue
		}
		s.cur = g
		g.wake <- false
		<-s.ctl
	}
	S = nil
	return s
}

func groupOf(id string, depth int) string {
	n := 0
	for i := 0; i < len(id); i++ {
		if id[i] == '.' {
			n++
			if n > depth {
				return id[:i]
			}
		}
	}
	return id
}

// NumGoroutines reports how many controlled goroutines were spawned (vacuity guard).
func (s *Sched) NumGoroutines() int { return s.nGo + 1 }
