// Package time is the virtual-clock stand-in for the standard time package that the
// rewritten pebbles sources import instead of "time".
package time

import (
	rt "time"

	"github.com/buildbuildio/pebbles/vrt"
)

type (
	Duration   = rt.Duration
	Time       = rt.Time
	Month      = rt.Month
	Weekday    = rt.Weekday
	Location   = rt.Location
	ParseError = rt.ParseError
)

const (
	Nanosecond  = rt.Nanosecond
	Microsecond = rt.Microsecond
	Millisecond = rt.Millisecond
	Second      = rt.Second
	Minute      = rt.Minute
	Hour        = rt.Hour

	Layout      = rt.Layout
	ANSIC       = rt.ANSIC
	UnixDate    = rt.UnixDate
	RFC822      = rt.RFC822
	RFC1123     = rt.RFC1123
	RFC3339     = rt.RFC3339
	RFC3339Nano = rt.RFC3339Nano
	Kitchen     = rt.Kitchen
	Stamp       = rt.Stamp
	DateTime    = rt.DateTime
	DateOnly    = rt.DateOnly
	TimeOnly    = rt.TimeOnly

	January  = rt.January
	February = rt.February
	March    = rt.March
	December = rt.December
	Sunday   = rt.Sunday
	Monday   = rt.Monday
)

var (
	UTC   = rt.UTC
	Local = rt.Local

	Parse           = rt.Parse
	ParseDuration   = rt.ParseDuration
	ParseInLocation = rt.ParseInLocation
	Unix            = rt.Unix
	UnixMilli       = rt.UnixMilli
	UnixMicro       = rt.UnixMicro
	Date            = rt.Date
	FixedZone       = rt.FixedZone
	LoadLocation    = rt.LoadLocation
)

func Now() Time                    { return vrt.Now() }
func Since(t Time) Duration        { return Now().Sub(t) }
func Until(t Time) Duration        { return t.Sub(Now()) }
func Sleep(d Duration)             { vrt.Sleep(d) }
func After(d Duration) <-chan Time { return NewTimer(d).C }
func Tick(d Duration) <-chan Time  { return NewTicker(d).C }

type vt interface {
	Stop() bool
	Reset(d, period rt.Duration) bool
}

type Timer struct {
	C    <-chan Time
	v    vt
	real *rt.Timer
}

func NewTimer(d Duration) *Timer {
	if vrt.S == nil {
		r := rt.NewTimer(d)
		return &Timer{C: r.C, real: r}
	}
	v, c := vrt.NewVTimer(d, 0, nil)
	return &Timer{C: c, v: v}
}

func AfterFunc(d Duration, f func()) *Timer {
	if vrt.S == nil {
		return &Timer{real: rt.AfterFunc(d, f)}
	}
	v, _ := vrt.NewVTimer(d, 0, f)
	return &Timer{v: v}
}

func (t *Timer) Stop() bool {
	if t.real != nil {
		return t.real.Stop()
	}
	return t.v.Stop()
}

func (t *Timer) Reset(d Duration) bool {
	if t.real != nil {
		return t.real.Reset(d)
	}
	return t.v.Reset(d, 0)
}

type Ticker struct {
	C    <-chan Time
	v    vt
	real *rt.Ticker
}

func NewTicker(d Duration) *Ticker {
	if d <= 0 {
		panic("non-positive interval for NewTicker")
	}
	if vrt.S == nil {
		r := rt.NewTicker(d)
		return &Ticker{C: r.C, real: r}
	}
	v, c := vrt.NewVTimer(d, d, nil)
	return &Ticker{C: c, v: v}
}

func (t *Ticker) Stop() {
	if t.real != nil {
		t.real.Stop()
		return
	}
	t.v.Stop()
}

func (t *Ticker) Reset(d Duration) {
	if t.real != nil {
		t.real.Reset(d)
		return
	}
	t.v.Reset(d, d)
}
