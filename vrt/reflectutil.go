package vrt

import "reflect"

func capOf(c interface{}) int { return reflect.ValueOf(c).Cap() }
