// acheck runs the Engine-A (bounded-exhaustive enumeration) checks against a plain build
// of /repo's working tree.
package main

import (
	"flag"
	"fmt"
	"os"
	"time"

	"verif/a"
)

func main() {
	worker := flag.Bool("worker", false, "run as a worker subprocess")
	dl := flag.Int64("deadline", 0, "unix deadline")
	replay := flag.String("replay", "", "replay file")
	probe := flag.Bool("probe", false, "development aid: acheck -probe <world> <query> [variables json]")
	flag.Parse()
	if *probe {
		vars := ""
		if flag.NArg() > 2 {
			vars = flag.Arg(2)
		}
		cfg := a.DefaultConfig
		if os.Getenv("PROBE_CACHED") != "" {
			cfg.Planner = "cached"
		}
		if os.Getenv("PROBE_HINT") != "" {
			cfg.Hint = true
		}
		os.Exit(a.Probe(flag.Arg(0), flag.Arg(1), vars, cfg))
	}
	if flag.NArg() < 2 {
		fmt.Println("usage: acheck <property> <quick|thorough>")
		os.Exit(2)
	}
	p := a.Props[flag.Arg(0)]
	if p == nil {
		fmt.Println("ERROR harness: unknown property", flag.Arg(0))
		os.Exit(2)
	}
	tier := flag.Arg(1)
	if *worker {
		a.Worker(p, tier, time.Unix(*dl, 0))
		return
	}
	if *replay != "" {
		os.Exit(a.Replay(p, tier, *replay))
	}
	os.Exit(a.Main(p, tier))
}
