//go:build verif

// bcheck runs the Engine-B (schedule exploration) checks.  It must be built with
// `-tags verif -overlay <overlay.json>` produced by vrewrite from /repo's working tree.
package main

import (
	"flag"
	"fmt"
	"io"
	"log"
	"os"
	"strconv"
	"strings"
	"time"

	"verif/b"
)

func main() {
	shard := flag.String("shard", "", "i/n: run one shard and print JSON lines")
	dl := flag.Int64("deadline", 0, "unix deadline for shards")
	selftest := flag.Bool("selftest", false, "run the engine self-tests")
	replay := flag.String("replay", "", "replay file")
	flag.Parse()
	log.SetOutput(io.Discard) // the code under test logs unknown client messages
	if *selftest {
		os.Exit(b.SelfTest())
	}
	if flag.NArg() < 2 {
		fmt.Println("usage: bcheck [-shard i/n] <property> <quick|thorough>")
		os.Exit(2)
	}
	spec := b.Specs[flag.Arg(0)]
	if spec == nil {
		fmt.Println("ERROR harness: unknown property", flag.Arg(0))
		os.Exit(2)
	}
	tier := flag.Arg(1)
	if *replay != "" {
		os.Exit(b.Replay(spec, tier, *replay))
	}
	if *shard != "" {
		p := strings.Split(*shard, "/")
		i, _ := strconv.Atoi(p[0])
		n, _ := strconv.Atoi(p[1])
		b.RunShard(spec, tier, i, n, time.Unix(*dl, 0))
		return
	}
	os.Exit(b.Main(spec, tier))
}
