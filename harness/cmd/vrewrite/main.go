// vrewrite mechanically rewrites the non-test sources of the pebbles module in /repo's
// *current working tree* so that every goroutine spawn, channel operation, select,
// sync/time/atomic use and (typed) range over a map or channel goes through the
// cooperative runtime `github.com/buildbuildio/pebbles/vrt`.  The result is written to an
// output directory together with a `go build -overlay` file that also injects the vrt
// package (from /verif/vrt) as a virtual package of the pebbles module.  /repo is never
// written.   See /verif/DESIGN.md §4.1.
package main

import (
	"bytes"
	"encoding/json"
	"flag"
	"fmt"
	"go/ast"
	"go/format"
	"go/token"
	"go/types"
	"os"
	"path/filepath"
	"sort"
	"strings"

	"golang.org/x/tools/go/packages"
)

const vrtPath = "github.com/buildbuildio/pebbles/vrt"

var shimImports = map[string]string{
	"sync":        vrtPath + "/vsync",
	"time":        vrtPath + "/vtime",
	"sync/atomic": vrtPath + "/vatomic",
}
var shimNames = map[string]string{"sync": "sync", "time": "time", "sync/atomic": "atomic"}

func main() {
	repo := flag.String("repo", "/repo", "pebbles working tree")
	vrtDir := flag.String("vrt", "/verif/vrt", "vrt runtime sources")
	out := flag.String("out", "/verif/build/ov", "output directory")
	extra := flag.String("extra", "", "directory of extra files to add to the overlay, laid out relative to the repo root")
	flag.Parse()

	if err := run(*repo, *vrtDir, *out, *extra); err != nil {
		fmt.Fprintln(os.Stderr, "ERROR rewriter:", err)
		os.Exit(2)
	}
}

func run(repo, vrtDir, out, extra string) error {
	if err := os.RemoveAll(out); err != nil {
		return err
	}
	if err := os.MkdirAll(out, 0o755); err != nil {
		return err
	}
	cfg := &packages.Config{
		Mode: packages.NeedName | packages.NeedFiles | packages.NeedCompiledGoFiles | packages.NeedSyntax |
			packages.NeedTypes | packages.NeedTypesInfo | packages.NeedImports,
		Dir:   repo,
		Tests: false,
	}
	pkgs, err := packages.Load(cfg, "./...")
	if err != nil {
		return err
	}
	overlay := map[string]string{}
	nfiles, nsites := 0, map[string]int{}
	for _, p := range pkgs {
		if len(p.Errors) > 0 {
			return fmt.Errorf("package %s does not type-check: %v", p.PkgPath, p.Errors[0])
		}
		for i, f := range p.Syntax {
			path := p.CompiledGoFiles[i]
			if strings.HasSuffix(path, "_test.go") {
				continue
			}
			rel, err := filepath.Rel(repo, path)
			if err != nil || strings.HasPrefix(rel, "..") {
				continue
			}
			src, err := os.ReadFile(path)
			if err != nil {
				return err
			}
			r := &rw{fset: p.Fset, src: src, info: p.TypesInfo, file: f, base: p.Fset.File(f.Pos()).Base(), rel: rel, sites: nsites}
			res, changed, err := r.rewriteFile()
			if err != nil {
				return fmt.Errorf("%s: %v", rel, err)
			}
			if !changed {
				continue
			}
			dst := filepath.Join(out, rel)
			os.MkdirAll(filepath.Dir(dst), 0o755)
			if err := os.WriteFile(dst, res, 0o644); err != nil {
				return err
			}
			overlay[path] = dst
			nfiles++
		}
	}
	// the runtime as a virtual package of the pebbles module
	err = filepath.Walk(vrtDir, func(p string, fi os.FileInfo, err error) error {
		if err != nil || fi.IsDir() || !strings.HasSuffix(p, ".go") {
			return err
		}
		rel, _ := filepath.Rel(vrtDir, p)
		overlay[filepath.Join(repo, "vrt", rel)] = p
		return nil
	})
	if err != nil {
		return err
	}
	if extra != "" {
		err = filepath.Walk(extra, func(p string, fi os.FileInfo, err error) error {
			if err != nil || fi.IsDir() {
				return err
			}
			rel, _ := filepath.Rel(extra, p)
			overlay[filepath.Join(repo, rel)] = p
			return nil
		})
		if err != nil {
			return err
		}
	}
	b, _ := json.MarshalIndent(map[string]interface{}{"Replace": overlay}, "", " ")
	if err := os.WriteFile(filepath.Join(out, "overlay.json"), b, 0o644); err != nil {
		return err
	}
	var ks []string
	for k := range nsites {
		ks = append(ks, fmt.Sprintf("%s=%d", k, nsites[k]))
	}
	sort.Strings(ks)
	fmt.Printf("vrewrite: %d files rewritten; sites: %s\n", nfiles, strings.Join(ks, " "))
	return nil
}

type rw struct {
	fset    *token.FileSet
	src     []byte
	info    *types.Info
	file    *ast.File
	base    int
	rel     string
	needVrt bool
	changed bool
	tmp     int
	sites   map[string]int
	err     error
}

func (r *rw) off(p token.Pos) int { return r.fset.Position(p).Offset }
func (r *rw) raw(n ast.Node) string {
	return string(r.src[r.off(n.Pos()):r.off(n.End())])
}
func (r *rw) n() int { r.tmp++; return r.tmp }

func (r *rw) site(n ast.Node) string {
	p := r.fset.Position(n.Pos())
	return fmt.Sprintf("%s:%d", r.rel, p.Line)
}

func (r *rw) count(kind string) {
	r.sites[kind]++
	r.changed = true
	r.needVrt = true
}

type rep struct {
	from, to int
	s        string
}

// text renders n with every construct that needs rewriting replaced.
func (r *rw) text(n ast.Node) string {
	if n == nil {
		return ""
	}
	if s, ok := r.special(n); ok {
		return s
	}
	return r.children(n)
}

func (r *rw) children(n ast.Node) string {
	var reps []rep
	ast.Inspect(n, func(c ast.Node) bool {
		if c == nil || c == n {
			return true
		}
		if s, ok := r.special(c); ok {
			reps = append(reps, rep{r.off(c.Pos()), r.off(c.End()), s})
			return false
		}
		return true
	})
	return r.splice(r.off(n.Pos()), r.off(n.End()), reps)
}

func (r *rw) splice(from, to int, reps []rep) string {
	var b strings.Builder
	cur := from
	for _, x := range reps {
		b.Write(r.src[cur:x.from])
		b.WriteString(x.s)
		cur = x.to
	}
	b.Write(r.src[cur:to])
	return b.String()
}

// inner renders the statements of a block without its braces.
func (r *rw) inner(b *ast.BlockStmt) string {
	s := r.text(b)
	s = strings.TrimSpace(s)
	return s[1 : len(s)-1]
}

func unparen(e ast.Expr) ast.Expr {
	for {
		p, ok := e.(*ast.ParenExpr)
		if !ok {
			return e
		}
		e = p.X
	}
}

func isRecv(e ast.Expr) (*ast.UnaryExpr, bool) {
	u, ok := unparen(e).(*ast.UnaryExpr)
	if ok && u.Op == token.ARROW {
		return u, true
	}
	return nil, false
}

func (r *rw) isBuiltin(fun ast.Expr, name string) bool {
	id, ok := unparen(fun).(*ast.Ident)
	if !ok || id.Name != name {
		return false
	}
	_, isB := r.info.Uses[id].(*types.Builtin)
	return isB
}

func (r *rw) underlying(e ast.Expr) types.Type {
	t := r.info.TypeOf(e)
	if t == nil {
		return nil
	}
	if tp, ok := t.(*types.TypeParam); ok {
		// core type of a type parameter, if any
		if u, ok := tp.Underlying().(*types.Interface); ok && u.NumEmbeddeds() == 1 {
			return u.EmbeddedType(0).Underlying()
		}
	}
	return t.Underlying()
}

func (r *rw) isChan(e ast.Expr) bool {
	_, ok := r.underlying(e).(*types.Chan)
	return ok
}

func (r *rw) isMap(e ast.Expr) bool {
	_, ok := r.underlying(e).(*types.Map)
	return ok
}

func (r *rw) special(n ast.Node) (string, bool) {
	switch x := n.(type) {
	case *ast.ImportSpec:
		path := strings.Trim(x.Path.Value, "\"`")
		if shim, ok := shimImports[path]; ok {
			name := shimNames[path]
			if x.Name != nil {
				name = x.Name.Name
			}
			r.changed = true
			r.sites["import:"+path]++
			return fmt.Sprintf("%s %q", name, shim), true
		}
	case *ast.GoStmt:
		return r.goStmt(x), true
	case *ast.SendStmt:
		r.count("send")
		return fmt.Sprintf("vrt.Send(%s, %s)", r.text(x.Chan), r.text(x.Value)), true
	case *ast.UnaryExpr:
		if x.Op == token.ARROW {
			r.count("recv")
			return fmt.Sprintf("vrt.Recv(%s)", r.text(x.X)), true
		}
	case *ast.AssignStmt:
		if len(x.Lhs) == 2 && len(x.Rhs) == 1 {
			if u, ok := isRecv(x.Rhs[0]); ok {
				r.count("recv2")
				return fmt.Sprintf("%s, %s %s vrt.Recv2(%s)", r.text(x.Lhs[0]), r.text(x.Lhs[1]), x.Tok, r.text(u.X)), true
			}
		}
	case *ast.ValueSpec:
		if len(x.Names) == 2 && len(x.Values) == 1 {
			if u, ok := isRecv(x.Values[0]); ok {
				r.count("recv2")
				typ := ""
				if x.Type != nil {
					typ = " " + r.text(x.Type)
				}
				return fmt.Sprintf("%s, %s%s = vrt.Recv2(%s)", x.Names[0].Name, x.Names[1].Name, typ, r.text(u.X)), true
			}
		}
	case *ast.CallExpr:
		switch {
		case r.isBuiltin(x.Fun, "close") && len(x.Args) == 1:
			r.count("close")
			return fmt.Sprintf("vrt.Close(%s)", r.text(x.Args[0])), true
		case r.isBuiltin(x.Fun, "make") && len(x.Args) >= 1 && r.isChan(x):
			r.count("make")
			return fmt.Sprintf("vrt.Reg(%s)", r.children(x)), true
		case (r.isBuiltin(x.Fun, "len") || r.isBuiltin(x.Fun, "cap")) && len(x.Args) == 1 && r.isChan(x.Args[0]):
			r.count("len")
			fn := "Len"
			if r.isBuiltin(x.Fun, "cap") {
				fn = "Cap"
			}
			return fmt.Sprintf("vrt.%s(%s)", fn, r.text(x.Args[0])), true
		}
	case *ast.SelectStmt:
		return r.selectStmt(x, ""), true
	case *ast.RangeStmt:
		if r.isMap(x.X) {
			return r.rangeMap(x), true
		}
		if r.isChan(x.X) {
			return r.rangeChan(x, ""), true
		}
	case *ast.LabeledStmt:
		switch in := x.Stmt.(type) {
		case *ast.SelectStmt:
			return r.selectStmt(in, x.Label.Name), true
		case *ast.RangeStmt:
			if r.isChan(in.X) {
				return r.rangeChan(in, x.Label.Name), true
			}
		}
	case *ast.CompositeLit:
		if t := r.info.TypeOf(x); t != nil {
			if nt, ok := t.(*types.Named); ok && nt.Obj().Pkg() != nil &&
				nt.Obj().Pkg().Path() == "github.com/gobwas/ws" && nt.Obj().Name() == "Dialer" {
				has := false
				for _, el := range x.Elts {
					if kv, ok := el.(*ast.KeyValueExpr); ok {
						if id, ok := kv.Key.(*ast.Ident); ok && id.Name == "NetDial" {
							has = true
						}
					}
				}
				if !has {
					r.count("dialer")
					body := r.children(x)
					i := strings.Index(body, "{")
					return body[:i+1] + "NetDial: vrt.NetDial, " + body[i+1:], true
				}
			}
		}
	}
	return "", false
}

func (r *rw) goStmt(g *ast.GoStmt) string {
	r.count("go")
	k := r.n()
	call := g.Call
	var pre, args []string
	pre = append(pre, fmt.Sprintf("_vf%d := %s", k, r.text(call.Fun)))
	for i, a := range call.Args {
		tv, ok := r.info.Types[a]
		if ok && (tv.Value != nil || tv.IsNil()) {
			args = append(args, r.text(a))
			continue
		}
		v := fmt.Sprintf("_va%d_%d", k, i)
		pre = append(pre, fmt.Sprintf("%s := %s", v, r.text(a)))
		if call.Ellipsis.IsValid() && i == len(call.Args)-1 {
			v += "..."
		}
		args = append(args, v)
	}
	return fmt.Sprintf("{\n%s\nvrt.Go(func() { _vf%d(%s) })\n}", strings.Join(pre, "\n"), k, strings.Join(args, ", "))
}

func (r *rw) selectStmt(s *ast.SelectStmt, label string) string {
	r.count("select")
	k := r.n()
	var pre, cases, arms []string
	hasDefault := false
	idx := 0
	for _, c := range s.Body.List {
		cc := c.(*ast.CommClause)
		var body strings.Builder
		for _, st := range cc.Body {
			body.WriteString(r.text(st))
			body.WriteString("\n")
		}
		if cc.Comm == nil {
			hasDefault = true
			arms = append(arms, fmt.Sprintf("case -1:\n%s", body.String()))
			continue
		}
		i := idx
		idx++
		switch cm := cc.Comm.(type) {
		case *ast.SendStmt:
			cases = append(cases, fmt.Sprintf("vrt.SendCase(%s, %s)", r.text(cm.Chan), r.text(cm.Value)))
			arms = append(arms, fmt.Sprintf("case %d:\n%s", i, body.String()))
		case *ast.ExprStmt:
			u, ok := isRecv(cm.X)
			if !ok {
				r.err = fmt.Errorf("%s: unsupported select comm", r.site(cm))
				return r.raw(s)
			}
			cases = append(cases, fmt.Sprintf("vrt.RecvCase(%s, nil, nil)", r.text(u.X)))
			arms = append(arms, fmt.Sprintf("case %d:\n%s", i, body.String()))
		case *ast.AssignStmt:
			u, ok := isRecv(cm.Rhs[0])
			if !ok {
				r.err = fmt.Errorf("%s: unsupported select comm", r.site(cm))
				return r.raw(s)
			}
			pre = append(pre, fmt.Sprintf("_vc%d_%d := %s", k, i, r.text(u.X)))
			pre = append(pre, fmt.Sprintf("_vv%d_%d := vrt.Zero(_vc%d_%d)", k, i, k, i))
			okp := "nil"
			if len(cm.Lhs) == 2 {
				pre = append(pre, fmt.Sprintf("var _vk%d_%d bool", k, i))
				okp = fmt.Sprintf("&_vk%d_%d", k, i)
			}
			cases = append(cases, fmt.Sprintf("vrt.RecvCase(_vc%d_%d, &_vv%d_%d, %s)", k, i, k, i, okp))
			var asg string
			if len(cm.Lhs) == 2 {
				asg = fmt.Sprintf("%s, %s %s _vv%d_%d, _vk%d_%d", r.text(cm.Lhs[0]), r.text(cm.Lhs[1]), cm.Tok, k, i, k, i)
			} else {
				asg = fmt.Sprintf("%s %s _vv%d_%d", r.text(cm.Lhs[0]), cm.Tok, k, i)
			}
			arms = append(arms, fmt.Sprintf("case %d:\n%s\n%s", i, asg, body.String()))
		default:
			r.err = fmt.Errorf("%s: unsupported select comm %T", r.site(cc), cm)
			return r.raw(s)
		}
	}
	lab := ""
	if label != "" {
		lab = label + ":\n"
	}
	return fmt.Sprintf("{\n%s\n%sswitch vrt.Select(%v%s) {\n%s}\n}", strings.Join(pre, "\n"), lab, hasDefault,
		prefixEach(cases), strings.Join(arms, ""))
}

func prefixEach(cs []string) string {
	var b strings.Builder
	for _, c := range cs {
		b.WriteString(", ")
		b.WriteString(c)
	}
	return b.String()
}

func blank(e ast.Expr) bool {
	if e == nil {
		return true
	}
	id, ok := e.(*ast.Ident)
	return ok && id.Name == "_"
}

func (r *rw) rangeMap(x *ast.RangeStmt) string {
	r.count("maprange")
	k := r.n()
	kv := fmt.Sprintf("_vkv%d", k)
	var head []string
	if x.Tok == token.DEFINE {
		if !blank(x.Key) {
			head = append(head, fmt.Sprintf("%s := %s.K", r.text(x.Key), kv))
		}
		if !blank(x.Value) {
			head = append(head, fmt.Sprintf("%s, _vok%d := %s.M[%s.K]\nif !_vok%d {\ncontinue\n}", r.text(x.Value), k, kv, kv, k))
		} else {
			head = append(head, fmt.Sprintf("if _, _vok%d := %s.M[%s.K]; !_vok%d {\ncontinue\n}", k, kv, kv, k))
		}
	} else {
		if !blank(x.Key) {
			head = append(head, fmt.Sprintf("%s = %s.K", r.text(x.Key), kv))
		}
		head = append(head, fmt.Sprintf("if _, _vok%d := %s.M[%s.K]; !_vok%d {\ncontinue\n}", k, kv, kv, k))
		if !blank(x.Value) {
			head = append(head, fmt.Sprintf("%s = %s.M[%s.K]", r.text(x.Value), kv, kv))
		}
	}
	return fmt.Sprintf("for _, %s := range vrt.MapOrder(%q, %s) {\n%s\n%s}", kv, r.site(x), r.text(x.X),
		strings.Join(head, "\n"), r.inner(x.Body))
}

func (r *rw) rangeChan(x *ast.RangeStmt, label string) string {
	r.count("chanrange")
	k := r.n()
	lab := ""
	if label != "" {
		lab = label + ":\n"
	}
	asg := ""
	if !blank(x.Key) {
		asg = fmt.Sprintf("%s %s _vv%d\n", r.text(x.Key), x.Tok, k)
	}
	return fmt.Sprintf("{\n_vc%d := %s\n%sfor {\n_vv%d, _vk%d := vrt.Recv2(_vc%d)\nif !_vk%d {\nbreak\n}\n_ = _vv%d\n%s%s}\n}",
		k, r.text(x.X), lab, k, k, k, k, k, asg, r.inner(x.Body))
}

func (r *rw) rewriteFile() ([]byte, bool, error) {
	// skip files that opt out
	body := r.children(r.file)
	if r.err != nil {
		return nil, false, r.err
	}
	if !r.changed {
		return nil, false, nil
	}
	// r.children rendered [file.Pos, file.End); prepend what precedes the package clause
	head := string(r.src[:r.off(r.file.Pos())])
	if r.needVrt {
		// insert the import right after the package clause
		nameEnd := r.off(r.file.Name.End()) - r.off(r.file.Pos())
		body = body[:nameEnd] + "\n\nimport vrt \"" + vrtPath + "\"\n" + body[nameEnd:]
	}
	res := []byte("//go:build verif\n\n" + stripBuildTags(head) + body)
	fm, err := format.Source(res)
	if err != nil {
		return nil, false, fmt.Errorf("rewritten source does not parse: %v\n%s", err, numbered(res))
	}
	return fm, true, nil
}

func stripBuildTags(head string) string {
	var out []string
	for _, l := range strings.Split(head, "\n") {
		if strings.HasPrefix(l, "//go:build") || strings.HasPrefix(l, "// +build") {
			continue
		}
		out = append(out, l)
	}
	return strings.Join(out, "\n")
}

func numbered(b []byte) string {
	var out bytes.Buffer
	for i, l := range bytes.Split(b, []byte("\n")) {
		fmt.Fprintf(&out, "%4d %s\n", i+1, l)
	}
	return out.String()
}
