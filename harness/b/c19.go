//go:build verif

package b

import (
	"fmt"
	"strings"
	"time"

	"verif/a"
	"verif/explore"

	"github.com/buildbuildio/pebbles/vrt"
)

// C19, schedule part: the layout enumeration of Engine A runs every upload alone.  Two
// file-carrying downstream requests are in flight at the same time when a client batch holds
// two upload operations or when one operation's upload fields live on two services; whatever
// the gateway shares between them (buffers, the variable tree, the upload map) is only
// visible under interleavings.  Every schedule within the preemption bound is executed on the
// rewritten sources (sync.Pool is modelled as one LIFO free list, DESIGN §4.2) and judged by
// the same oracle as the layouts (a.JudgeUpload).

func c19Harness(world string, cfg a.Config, l a.UpLayout, fresh bool) explore.Harness {
	h := newGWHarness(world, cfg)
	h.fresh = fresh
	body, ct := l.Body()
	return func() (func(), func(*vrt.Sched) (string, string)) {
		h.begin()
		var status int
		var resp []byte
		done := false
		run := func() {
			h.fed.Fakes.Reset()
			vrt.Explore(true)
			status, resp = h.fed.Post([]byte(body), ct)
			vrt.Explore(false)
			done = true
		}
		check := func(s *vrt.Sched) (string, string) {
			if v := verdictOfSched(s); v != "" {
				return v, v
			}
			if !done {
				return "handler did not return", ""
			}
			sigs, reached, _ := a.JudgeUpload(h.fed, l, status, resp)
			if len(sigs) > 0 {
				return strings.Join(sigs, "; "), ""
			}
			if !reached {
				return "", "ok (no file reached a service)"
			}
			return "", "ok"
		}
		return run, check
	}
}

// c19Baseline: layouts that already fail when run alone are Engine A's business (known
// findings there); the schedule part takes the layouts that are clean sequentially.
func c19Clean(world string, cfg a.Config, l a.UpLayout) bool {
	h := newGWHarness(world, cfg)
	body, ct := l.Body()
	h.fed.Fakes.Reset()
	status, resp := h.fed.Post([]byte(body), ct)
	sigs, reached, gen := a.JudgeUpload(h.fed, l, status, resp)
	return len(sigs) == 0 && reached && len(gen) == 0
}

func init() {
	Specs["C19"] = &Spec{
		ID: "C19",
		Rule: "schedule part: scenario = one multipart client request that puts two file-carrying downstream requests in flight (client batch of two upload operations, same or different services; one operation with upload fields on two services) " +
			"taken from the layout alphabet of the enumeration part, restricted to layouts that are clean when run alone; every schedule of the real handler (rewritten sources, sync.Pool modelled as a LIFO free list) operation-grained for client batches, step-grained for one operation on two services (scheduling choices between the goroutine subtrees of different operations / per-service steps, default order inside one) with <=1 preemption (thorough: <=2), state-cached; " +
			"oracle per execution = the enumeration part's (each service that uses the variable receives a multipart sub-request with the same path -> name, bytes; nobody else gets a file; no undecodable request; answers without errors); non-trivial = >1 execution",
		Assumptions: []string{
			"in-memory services yield to the scheduler once per HTTP call, before they read the request body (as a real transport reads the body some time after the request was built)",
			"sync.Pool hands out the most recently returned object; dependencies (mime/multipart, net/http) are not instrumented",
		},
		Budget: func(tier string) time.Duration {
			if tier == "quick" {
				return 40 * time.Second
			}
			return 6 * time.Minute
		},
		Shards: func(string) int { return 16 },
		Scenarios: func(tier string) []Scenario {
			var out []Scenario
			bound := 1
			if tier == "thorough" {
				bound = 2
			}
			type wc struct {
				world  string
				cfg    a.Config
				second bool
			}
			m1 := a.DefaultConfig
			m1.BatchM = 1
			worlds := []wc{{"W0+upload-roots+upload-second-service", a.DefaultConfig, true}, {"W0+upload-roots", a.DefaultConfig, false}}
			if tier == "thorough" {
				worlds = append(worlds, wc{"W0+upload-roots+upload-second-service", m1, true}, wc{"Wmin+upload-roots+upload-second-service", a.DefaultConfig, true})
			}
			for _, w := range worlds {
				for _, l := range a.UploadLayouts("quick", w.second) {
					concurrent := len(l.Ops) > 1 && len(l.Files) > 1
					if len(l.Ops) == 1 && strings.Contains(l.Ops[0].Q, "upload1(") && strings.Contains(l.Ops[0].Q, "upload(") && len(l.Files) > 1 {
						concurrent = true
					}
					// one variable (an input object with a file and a list of files) consumed by two services
					if len(l.Ops) == 1 && strings.Contains(l.Ops[0].Q, "uploadIn1(") && strings.Contains(l.Ops[0].Q, "uploadIn(") && len(l.Files) > 0 {
						concurrent = true
					}
					if !concurrent || !c19Clean(w.world, w.cfg, l) {
						continue
					}
					l := l
					// a client batch: threads = operations (0.k); one operation: threads = its per-service steps (0.k.j)
					group := 1
					if len(l.Ops) == 1 {
						group = 2
					}
					out = append(out, Scenario{
						Name:  fmt.Sprintf("%s %s | %s PB<=%d", w.world, w.cfg.String(), l.Desc, bound),
						Atoms: []string{"concurrent-uploads"},
						Opt:   explore.Options{Bound: bound, Horizon: 200000, Cache: true, GroupDepth: group},
						H:     c19Harness(w.world, w.cfg, l, false),
						Fresh: func() explore.Harness { return c19Harness(w.world, w.cfg, l, true) },
					})
				}
			}
			return out
		},
	}
}
