//go:build verif

package b

import (
	"fmt"
	"strings"
	"time"

	"verif/a"
	"verif/explore"

	"github.com/buildbuildio/pebbles/vrt"
)

// C18: subscription teardown is safe under every interleaving.

type cliAction string

// racing client actions (after one subscription "1" has been established)
var c18ClientAlphabet = []cliAction{"stop1", "stop1again", "terminate", "close", "malformed", "unknown", "start-invalid", "start-no-payload", "truncated", "start2", "stop-unknown", "restart1"}

const c18SubTick = "subscription { tick }"
const c18SubCross = "subscription { n1Changed { name phone } }"

type c18Scenario struct {
	world   string
	sub     string
	client  []cliAction
	up      [][]upAction // script per upstream connection (index 0 = subscription "1")
	timers  int
	bound   int
	planner string
	// slow: the client's receive buffer holds 16 bytes and the client reads nothing for 6.5 s after the
	// subscription is established (a data frame is stuck half-way while the 4 s heartbeat comes due), then
	// reads on and terminates at 10 s
	slow bool
}

func (sc c18Scenario) name() string {
	var cs []string
	for _, c := range sc.client {
		cs = append(cs, string(c))
	}
	var us []string
	for _, u := range sc.up {
		var x []string
		for _, a := range u {
			x = append(x, string(a))
		}
		us = append(us, "["+strings.Join(x, ",")+"]")
	}
	slow := ""
	if sc.slow {
		slow = " slow-reader"
	}
	return fmt.Sprintf("%s client=[%s]%s upstream=%s heartbeats<=%d PB<=%d planner=%s", sc.sub, strings.Join(cs, ","), slow, strings.Join(us, ""), sc.timers, sc.bound, sc.planner)
}

func (sc c18Scenario) atoms() []string {
	set := map[string]bool{}
	for _, c := range sc.client {
		set["client-"+string(c)] = true
	}
	for _, u := range sc.up {
		for _, a := range u {
			set["upstream-"+string(a)] = true
		}
	}
	if sc.timers > 0 {
		set["heartbeat"] = true
	}
	if sc.slow {
		set["slow-reader"] = true
	}
	if sc.sub == c18SubCross {
		set["child-steps"] = true
	}
	var out []string
	for k := range set {
		out = append(out, k)
	}
	sortStrings(out)
	return out
}

type c18Obs struct {
	received        []byte
	handlerReturned bool
	env             *wsEnv
	srv             *vrt.Conn
	established     int
}

func c18Harness(h *gwHarness, sc c18Scenario) explore.Harness {
	return func() (func(), func(*vrt.Sched) (string, string)) {
		h.begin()
		o := &c18Obs{}
		run := func() {
			h.fed.Fakes.Reset()
			env := &wsEnv{fed: h.fed, scripts: sc.up, startedC: vrt.MakeChan[int](8)}
			o.env = env
			env.install()
			connID := h.guard.open()
			defer h.guard.close(connID)
			cli, srv := vrt.Pipe("client")
			o.srv = srv
			// what the client receives is read off the server end's write log afterwards
			hdone := vrt.MakeChan[int](1)
			vrt.GoNamed("handler", func() {
				h.fed.GW.Handler(&hijackWriter{conn: srv}, upgradeRequest(connID))
				o.handlerReturned = true
				vrt.Send(hdone, 1)
			})
			// set-up under the default schedule: init, first subscription established
			writeClientFrame(cli, clientMsg("connection_init", "", nil))
			writeClientFrame(cli, clientMsg("start", "1", map[string]interface{}{"query": sc.sub}))
			vrt.Recv(env.startedC)
			o.established = 1
			if sc.slow {
				big := false
				for _, u := range sc.up {
					for _, x := range u {
						big = big || x == "bigevent"
					}
				}
				if big {
					slowReader(cli, 8192) // an event of 20 kB passes in three pieces
				} else {
					slowReader(cli)
				}
			}
			vrt.Explore(true)
			for _, u := range env.ups {
				vrt.Send(u.goC, 1)
			}
			vrt.GoDaemon("client-writer", func() {
				ended := false
				for _, act := range sc.client {
					switch act {
					case "stop1", "stop1again":
						writeClientFrame(cli, clientMsg("stop", "1", nil))
					case "stop-unknown":
						writeClientFrame(cli, clientMsg("stop", "zz", nil))
					case "terminate":
						writeClientFrame(cli, clientMsg("connection_terminate", "", nil))
						ended = true
					case "close":
						cli.Close()
						ended = true
					case "malformed":
						writeClientFrame(cli, []byte("{oops"))
						ended = true
					case "unknown":
						writeClientFrame(cli, clientMsg("bogus", "", nil))
						ended = true
					case "start-invalid":
						writeClientFrame(cli, clientMsg("start", "9", map[string]interface{}{"query": "subscription { nope }"}))
						ended = true
					case "start-no-payload":
						writeClientFrame(cli, clientMsg("start", "9", nil))
						ended = true
					case "truncated":
						cli.Write([]byte{0x81, 0x80 | 50, 1, 2, 3, 4, 'x', 'y'})
						cli.Close()
						ended = true
					case "start2":
						writeClientFrame(cli, clientMsg("start", "2", map[string]interface{}{"query": sc.sub}))
					case "restart1":
						// the client uses the id of its first subscription again (after a stop: the usual way ids are recycled)
						writeClientFrame(cli, clientMsg("start", "1", map[string]interface{}{"query": sc.sub}))
					}
					if ended {
						break
					}
				}
				if !ended {
					// every script ends the connection, otherwise nothing is torn down
					if sc.slow {
						vrt.Sleep(10 * time.Second)
					}
					writeClientFrame(cli, clientMsg("connection_terminate", "", nil))
				}
			})
			vrt.Recv(hdone)
		}
		check := func(s *vrt.Sched) (string, string) {
			v := c18Verdict(s, o)
			return v, v
		}
		return run, check
	}
}

// slowReader turns the client end into a slow reader: what has arrived so far is consumed, from now on
// 16 unread bytes fill the receive buffer, and the client reads again (to the end) after 6.5 s.
func slowReader(cli *vrt.Conn, bufSize ...int) {
	buf := make([]byte, 1<<16)
	cli.Read(buf)
	cli.RecvBuf = 16
	if len(bufSize) > 0 {
		cli.RecvBuf = bufSize[0]
	}
	vrt.GoDaemon("client-reader", func() {
		vrt.Sleep(6500 * time.Millisecond)
		for {
			if _, err := cli.Read(buf); err != nil {
				return
			}
		}
	})
}

func c18Verdict(s *vrt.Sched, o *c18Obs) string {
	if s.Fatal != "" {
		return "FATAL " + s.Fatal
	}
	if s.RootPanic != "" {
		return "PANIC in driver: " + s.RootPanic
	}
	if !o.handlerReturned {
		return "DEADLOCK handler never returned; stuck=" + stuckOps(s.Stuck)
	}
	if s.Deadlock {
		return "LEAK goroutines left behind after the connection ended: " + stuckOps(s.Stuck)
	}
	if o.env != nil {
		for _, u := range o.env.ups {
			if u.started && u.gwSide.CloseCalls == 0 {
				return "upstream connection of an ended subscription was never closed"
			}
		}
	}
	if o.srv != nil && o.srv.CloseCalls == 0 {
		return "client connection not closed by the handler"
	}
	if o.srv != nil {
		for _, w := range o.srv.Written {
			o.received = append(o.received, w...)
		}
	}
	frames, problem := parseServerStream(o.received)
	if problem != "" {
		return "client received a malformed frame stream: " + problem
	}
	if _, p := decodeMessages(frames); p != "" {
		return "client received a malformed message: " + p
	}
	return ""
}

// stuckOps abstracts "<label>@<op>" entries to the multiset of blocked operations.
func stuckOps(st []string) string {
	m := map[string]int{}
	for _, x := range st {
		at := strings.LastIndex(x, "@")
		label := x[:at]
		role := "goroutine"
		if i := strings.Index(label, "("); i > 0 {
			role = label[:i]
		}
		m[role+x[at:]]++
	}
	var out []string
	for k, v := range m {
		out = append(out, fmt.Sprintf("%dx%s", v, k))
	}
	sortStrings(out)
	return strings.Join(out, ",")
}

func c18Scenarios(tier string) []c18Scenario {
	var out []c18Scenario
	upAlpha := [][]upAction{{}, {"event"}, {"complete"}, {"error"}, {"disconnect"}, {"errorpayload"}}
	cl1 := [][]cliAction{}
	for _, a := range c18ClientAlphabet {
		cl1 = append(cl1, []cliAction{a})
	}
	cl2 := [][]cliAction{}
	for _, a := range []cliAction{"stop1", "start2", "stop-unknown"} {
		for _, b := range c18ClientAlphabet {
			if tier == "quick" && (a == "start2" || b == "start2" || b == "restart1") {
				continue
			}
			cl2 = append(cl2, []cliAction{a, b})
		}
	}
	if tier == "quick" {
		for _, c := range cl1 {
			if c[0] == "start2" || c[0] == "restart1" {
				continue // two subscriptions: thorough only (the state space is an order of magnitude larger)
			}
			for _, u := range upAlpha {
				out = append(out, c18Scenario{world: "W0+subscription-roots", sub: c18SubTick, client: c, up: [][]upAction{u, u}, timers: 1, bound: 1, planner: "plain"})
			}
		}
		for _, c := range cl2 {
			for _, u := range upAlpha[:3] {
				out = append(out, c18Scenario{world: "W0+subscription-roots", sub: c18SubTick, client: c, up: [][]upAction{u, u}, timers: 0, bound: 1, planner: "plain"})
			}
		}
		// a second start whose upstream handshake is still in flight when the client leaves (default schedule plus
		// forced switches only: the handshake blocks on the upstream, the read loop goes on)
		for _, c := range [][]cliAction{{"start2"}, {"start2", "close"}, {"start2", "stop1"}, {"stop1", "restart1"}, {"stop1", "restart1", "stop1"}, {"restart1"}, {"restart1", "stop1"}} {
			for _, u := range [][]upAction{{}, {"event"}} {
				out = append(out, c18Scenario{world: "W0+subscription-roots", sub: c18SubTick, client: c, up: [][]upAction{u, u}, timers: 0, bound: 0, planner: "plain"})
			}
		}
		// a reader that stalls while a data frame is half-way and the heartbeat comes due
		for _, u := range [][]upAction{{"event"}, {"event", "event"}, {"event", "complete"}} {
			b := 1
			if len(u) == 2 && u[1] == "event" {
				b = 0 // two stuck frames: default schedule and forced switches only (thorough: bound 2)
			}
			out = append(out, c18Scenario{world: "W0+subscription-roots", sub: c18SubTick, up: [][]upAction{u, u}, timers: 1, bound: b, planner: "plain", slow: true})
		}
		out = append(out, c18Scenario{world: "W0+subscription-roots", sub: c18SubCross, up: [][]upAction{{"event"}, {"event"}}, timers: 1, bound: 1, planner: "plain", slow: true})
		// an event far above any buffer size while the heartbeat comes due (a gateway that writes such a message in
		// pieces must keep other writers out until the last piece)
		out = append(out, c18Scenario{world: "W0+subscription-roots", sub: c18SubTick, up: [][]upAction{{"bigevent"}, {"bigevent"}}, timers: 1, bound: 1, planner: "plain", slow: true})
		// the listener of a stopped subscription is still busy (its frame is stuck at the slow reader) when its id is used again
		for _, c := range [][]cliAction{{"stop1", "restart1"}, {"stop1", "restart1", "stop1"}} {
			out = append(out, c18Scenario{world: "W0+subscription-roots", sub: c18SubTick, client: c, up: [][]upAction{{"event"}, {"event"}}, timers: 0, bound: 0, planner: "plain", slow: true})
		}
		// a heartbeat firing *and* one preemption (two deviations) while an event is in flight
		for _, c := range [][]cliAction{{"stop-unknown"}, {"terminate"}} {
			out = append(out, c18Scenario{world: "W0+subscription-roots", sub: c18SubTick, client: c, up: [][]upAction{{"event"}, {"event"}}, timers: 1, bound: 2, planner: "plain"})
		}
		for _, c := range [][]cliAction{{"stop1"}, {"terminate"}, {"close"}} {
			for _, u := range [][]upAction{{"event"}, {"complete"}, {"event", "event"}} {
				out = append(out, c18Scenario{world: "W0+subscription-roots", sub: c18SubCross, client: c, up: [][]upAction{u, u}, timers: 0, bound: 1, planner: "plain"})
			}
		}
		return out
	}
	up2 := append([][]upAction{}, upAlpha...)
	for _, a := range []upAction{"event", "errorpayload"} {
		for _, b := range []upAction{"event", "complete", "error", "disconnect"} {
			up2 = append(up2, []upAction{a, b})
		}
	}
	for _, u := range up2 {
		out = append(out, c18Scenario{world: "W0+subscription-roots", sub: c18SubTick, up: [][]upAction{u, u}, timers: 2, bound: 2, planner: "plain", slow: true})
		out = append(out, c18Scenario{world: "W0+subscription-roots", sub: c18SubCross, up: [][]upAction{u, u}, timers: 1, bound: 1, planner: "plain", slow: true})
	}
	for _, c := range append(cl1, cl2...) {
		for _, u := range up2 {
			out = append(out, c18Scenario{world: "W0+subscription-roots", sub: c18SubTick, client: c, up: [][]upAction{u, u}, timers: 1, bound: 1, planner: "plain"})
		}
	}
	for _, c := range cl1 {
		for _, u := range upAlpha {
			out = append(out, c18Scenario{world: "W0+subscription-roots", sub: c18SubTick, client: c, up: [][]upAction{u, u}, timers: 2, bound: 2, planner: "plain"})
			out = append(out, c18Scenario{world: "W0+subscription-roots", sub: c18SubCross, client: c, up: [][]upAction{u, u}, timers: 1, bound: 1, planner: "cached"})
		}
	}
	return out
}

func init() {
	Specs["C18"] = &Spec{
		ID: "C18",
		Rule: "scenario = (client script over {stop, stop again, stop unknown id, terminate, abrupt close, malformed JSON, unknown type, start with invalid query, start without payload, truncated frame, second start, a start that uses the id of the stopped - or of the still running - subscription again} of length <=2 after one established subscription; " +
			"upstream script per subscription over {event, complete, error, disconnect, error payload} of length <=1 (thorough <=2); heartbeat ticker may fire <=1 (2) times as an environment move; plus a slow reader: the client's receive buffer holds 16 bytes (writes deliver what fits and block, a Write under way keeps other writers out, SetWriteDeadline is a virtual-time timer that fails blocked writes), the client reads nothing from 0 to 6.5 s while events arrive and the 4 s heartbeat comes due, reads on and terminates at 10 s); the real subscriptionHandler, " +
			"subscriptionEntry.Listen/Close and MultiOpQueryer.Subscribe reader/closer goroutines (rewritten sources) run over scheduler-aware pipes with a hijacked websocket upgrade and a gobwas upstream; every schedule with <=1 (2) preemption " +
			"inside the window that opens once the first subscription is established is executed (state-cached); invariants: no fatal/panic, no deadlock, handler returns, every goroutine started for the connection terminates, " +
			"every established upstream connection is closed, and the byte stream the client received parses into complete websocket frames carrying complete graphql-ws messages; non-trivial = >1 execution",
		Assumptions: []string{"time is virtual: only orderings of ticker firings are explored", "schedules beyond the preemption bound are not covered", "gobwas/ws, encoding/json are not instrumented (no goroutines on the paths used)"},
		Budget: func(tier string) time.Duration {
			if tier == "quick" {
				return 150 * time.Second
			}
			return 14 * time.Minute
		},
		Shards: func(string) int { return 16 },
		Scenarios: func(tier string) []Scenario {
			hs := map[string]*gwHarness{}
			var out []Scenario
			for _, sc := range c18Scenarios(tier) {
				key := sc.world + "|" + sc.planner
				h := hs[key]
				if h == nil {
					h = newGWHarness(sc.world, a.Config{Merger: "extend", Planner: sc.planner})
					hs[key] = h
				}
				sc := sc
				out = append(out, Scenario{Name: sc.name(), Atoms: sc.atoms(),
					Opt: explore.Options{Bound: sc.bound, Cache: true, TimerBudget: sc.timers, Horizon: 100000},
					H:   c18Harness(h, sc), Fresh: func() explore.Harness { return c18Harness(h.freshCopy(), sc) }})
			}
			return out
		},
	}
}
