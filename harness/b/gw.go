//go:build verif

package b

import (
	"encoding/json"
	"fmt"
	"sort"
	"strings"
	"time"

	"verif/a"
	"verif/gqlref"

	"github.com/buildbuildio/pebbles/planner"
	"github.com/buildbuildio/pebbles/vrt"
)

// gwHarness wraps one real gateway (rewritten sources) over in-memory services whose
// RoundTrip yields to the scheduler, so that completion order is an explorer choice.
type gwHarness struct {
	fed   *a.Fed
	guard *connGuard
	world string
	cfg   a.Config
	// fresh: build a new gateway for every execution (the slow path taken when executions turn out
	// not to be independent, i.e. the gateway carries state from one execution into the next)
	fresh bool
	setup func(h *gwHarness) // re-applied to a rebuilt gateway (fault plans etc.)
}

// begin is called by every harness factory before an execution starts (pass-through mode).
func (h *gwHarness) begin() {
	if !h.fresh {
		return
	}
	n := newGWHarness(h.world, h.cfg)
	h.fed, h.guard = n.fed, n.guard
	if h.setup != nil {
		h.setup(h)
	}
}

// freshCopy returns a harness over the same world that rebuilds its gateway per execution.
func (h *gwHarness) freshCopy() *gwHarness {
	n := newGWHarness(h.world, h.cfg)
	n.fresh, n.setup = true, h.setup
	if n.setup != nil {
		n.setup(n)
	}
	return n
}

func newGWHarness(world string, cfg a.Config) *gwHarness {
	parts := strings.Split(world, "+")
	wd := a.WorldDesc{Base: parts[0], Atoms: parts[1:]}
	w, err := wd.Build()
	if err != nil {
		panic(err)
	}
	f, err := a.NewFed(w, cfg) // built in pass-through mode, before any controlled run
	if err != nil {
		panic(err)
	}
	f.Fakes.Hook = func(url string) { vrt.Touch("transport") } // orders the calls in the goroutine histories (state cache soundness)
	return &gwHarness{fed: f, guard: newConnGuard(f), world: world, cfg: cfg}
}

func bodyOf(q string, vars map[string]interface{}) json.RawMessage {
	m := map[string]interface{}{"query": q}
	if vars != nil {
		m["variables"] = vars
	}
	b, _ := json.Marshal(m)
	return b
}

// canonResp renders a single result canonically: data as is, errors as a sorted set of
// messages (the relative order of errors of concurrently failing steps may vary).
func canonResp(v interface{}) string {
	m, ok := v.(map[string]interface{})
	if !ok {
		b, _ := json.Marshal(v)
		return "non-object:" + string(b)
	}
	var msgs []string
	if e, ok := m["errors"].([]interface{}); ok {
		for _, x := range e {
			b, _ := json.Marshal(x)
			msgs = append(msgs, string(b))
		}
	}
	sort.Strings(msgs)
	d, _ := json.Marshal(gqlref.Norm(m["data"]))
	return fmt.Sprintf("data=%s errors=%v", d, msgs)
}

// subreqMultiset renders the per-service multiset of (query, variables) received.
func subreqMultiset(f *a.Fed) string {
	var l []string
	for _, r := range f.Fakes.Reqs {
		vb, _ := json.Marshal(r.Variables)
		l = append(l, fmt.Sprintf("s%d|%s|%s", r.Svc, strings.Join(strings.Fields(r.Query), " "), vb))
	}
	sort.Strings(l)
	return strings.Join(l, "\n")
}

func verdictOfSched(s *vrt.Sched) string {
	switch {
	case s.Fatal != "":
		return "FATAL " + s.Fatal + " in " + roleOf(s.FatalG)
	case s.RootPanic != "":
		return "PANIC in handler: " + s.RootPanic
	case s.Deadlock:
		return "DEADLOCK/LEAK stuck=" + stuckRoles(s.Stuck)
	}
	return ""
}

func newCached() *planner.CachedPlanner { return planner.NewCachedPlanner(time.Hour) }
