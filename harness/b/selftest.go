//go:build verif

package b

import (
	"encoding/json"
	"fmt"
	"os"
	"strings"
	"time"

	"verif/explore"

	"github.com/buildbuildio/pebbles/vrt"
	vsync "github.com/buildbuildio/pebbles/vrt/vsync"
)

type stCase struct {
	name   string
	opt    explore.Options
	h      explore.Harness
	expect func(r *explore.Result) string
}

func outcomeOnly(f func() string) func(*vrt.Sched) (string, string) {
	return func(s *vrt.Sched) (string, string) {
		if s.Fatal != "" {
			return "", "FATAL " + s.Fatal
		}
		if s.RootPanic != "" {
			return "", "ROOTPANIC " + s.RootPanic
		}
		if s.Deadlock {
			return "", "DEADLOCK"
		}
		return "", f()
	}
}

func lostUpdate() (func(), func(*vrt.Sched) (string, string)) {
	x := 0
	body := func() {
		var wg vsync.WaitGroup
		wg.Add(2)
		for i := 0; i < 2; i++ {
			vrt.Go(func() {
				vrt.Touch("x")
				t := x
				vrt.Touch("x")
				x = t + 1
				wg.Done()
			})
		}
		wg.Wait()
	}
	return body, outcomeOnly(func() string { return fmt.Sprint("x=", x) })
}

func abba() (func(), func(*vrt.Sched) (string, string)) {
	var a, b vsync.Mutex
	body := func() {
		var wg vsync.WaitGroup
		wg.Add(2)
		vrt.Go(func() { a.Lock(); b.Lock(); b.Unlock(); a.Unlock(); wg.Done() })
		vrt.Go(func() { b.Lock(); a.Lock(); a.Unlock(); b.Unlock(); wg.Done() })
		wg.Wait()
	}
	return body, outcomeOnly(func() string { return "ok" })
}

func rendezvous() (func(), func(*vrt.Sched) (string, string)) {
	got := -1
	body := func() {
		c := vrt.MakeChan[int]()
		vrt.Go(func() { vrt.Send(c, 7) })
		got = vrt.Recv(c)
	}
	return body, outcomeOnly(func() string { return fmt.Sprint("got=", got) })
}

func selectTwo() (func(), func(*vrt.Sched) (string, string)) {
	which := ""
	body := func() {
		a := vrt.MakeChan[int](1)
		b := vrt.MakeChan[int](1)
		vrt.Send(a, 1)
		vrt.Send(b, 2)
		var va, vb int
		switch vrt.Select(false, vrt.RecvCase(a, &va, nil), vrt.RecvCase(b, &vb, nil)) {
		case 0:
			which = fmt.Sprint("a", va)
		case 1:
			which = fmt.Sprint("b", vb)
		}
	}
	return body, outcomeOnly(func() string { return which })
}

func sendClosedRecovered() (func(), func(*vrt.Sched) (string, string)) {
	rec := ""
	body := func() {
		c := vrt.MakeChan[int]()
		vrt.Close(c)
		func() {
			defer func() {
				if r := recover(); r != nil {
					rec = fmt.Sprint(r)
				}
			}()
			vrt.Send(c, 1)
		}()
	}
	return body, outcomeOnly(func() string { return rec })
}

func sendClosedEscapes() (func(), func(*vrt.Sched) (string, string)) {
	body := func() {
		c := vrt.MakeChan[int]()
		d := vrt.MakeChan[int]()
		vrt.Go(func() { vrt.Send(c, 1) })
		vrt.Close(c)
		vrt.Recv(d)
	}
	return body, outcomeOnly(func() string { return "ok" })
}

func nonBlockingSelect() (func(), func(*vrt.Sched) (string, string)) {
	res := ""
	body := func() {
		c := vrt.MakeChan[int]()
		ready := vrt.MakeChan[int]()
		done := vrt.MakeChan[int]()
		vrt.Go(func() { vrt.Send(ready, 0); vrt.Send(c, 5); vrt.Send(done, 0) })
		vrt.Recv(ready)
		var v int
		if vrt.Select(true, vrt.RecvCase(c, &v, nil)) == -1 {
			res = "default"
			vrt.Recv(c)
		} else {
			res = fmt.Sprint("recv", v)
		}
		vrt.Recv(done)
	}
	return body, outcomeOnly(func() string { return res })
}

func unlockUnlocked() (func(), func(*vrt.Sched) (string, string)) {
	body := func() {
		var m vsync.Mutex
		m.TryLock()
		m.Unlock()
		m.Unlock()
	}
	return body, outcomeOnly(func() string { return "ok" })
}

// slowPipe: a writer of 10 bytes into a 4-byte receive buffer, a second writer, a reader that
// wakes at 3 s; with deadline: a third goroutine sets the write deadline to 1 s while the first
// Write is under way.
func slowPipe(deadline bool) func() (func(), func(*vrt.Sched) (string, string)) {
	return func() (func(), func(*vrt.Sched) (string, string)) {
		res := ""
		body := func() {
			a, b := vrt.Pipe("p")
			b.RecvBuf = 4
			done := vrt.MakeChan[int](3)
			var n1 int
			var e1 error
			vrt.Go(func() { n1, e1 = a.Write([]byte("0123456789")); vrt.Send(done, 0) })
			if deadline {
				vrt.Go(func() {
					vrt.Sleep(500 * time.Millisecond)
					a.SetWriteDeadline(vrt.Now().Add(time.Second))
					vrt.Send(done, 0)
				})
			} else {
				vrt.Go(func() { a.Write([]byte("AB")); vrt.Send(done, 0) })
			}
			vrt.Go(func() {
				vrt.Sleep(3 * time.Second)
				buf := make([]byte, 64)
				got := ""
				want := 12
				if deadline {
					want = 1 // whatever was accepted before the deadline passed
				}
				for len(got) < want {
					n, err := b.Read(buf)
					got += string(buf[:n])
					if err != nil {
						break
					}
				}
				res = fmt.Sprintf("%s n1=%d timeout=%v", got, n1, e1 != nil)
				vrt.Send(done, 0)
			})
			vrt.Recv(done)
			vrt.Recv(done)
			vrt.Recv(done)
		}
		return body, outcomeOnly(func() string { return res })
	}
}

func has(r *explore.Result, o string) bool { return r.Outcomes[o] > 0 }

// SelfTest runs textbook programs with known answers through the runtime and explorer.
func SelfTest() int {
	cases := []stCase{
		{"lost update invisible without preemption", explore.Options{Bound: 0, StartBranch: true}, lostUpdate, func(r *explore.Result) string {
			if len(r.Outcomes) != 1 || !has(r, "x=2") {
				return fmt.Sprint("want only x=2, got ", r.OutcomeList())
			}
			return ""
		}},
		{"lost update needs exactly one preemption", explore.Options{Bound: 1, StartBranch: true}, lostUpdate, func(r *explore.Result) string {
			if !has(r, "x=1") || !has(r, "x=2") || len(r.Outcomes) != 2 {
				return fmt.Sprint("want x=1 and x=2, got ", r.OutcomeList())
			}
			return ""
		}},
		{"lost update, unbounded, cached == uncached outcome set", explore.Options{Bound: -1, Cache: true, StartBranch: true}, lostUpdate, func(r *explore.Result) string {
			if !has(r, "x=1") || !has(r, "x=2") || len(r.Outcomes) != 2 {
				return fmt.Sprint("want x=1 and x=2, got ", r.OutcomeList())
			}
			return ""
		}},
		{"AB-BA: no deadlock at PB0", explore.Options{Bound: 0, StartBranch: true}, abba, func(r *explore.Result) string {
			if has(r, "DEADLOCK") {
				return "deadlock without preemption"
			}
			return ""
		}},
		{"AB-BA: deadlock found at PB1", explore.Options{Bound: 1, StartBranch: true}, abba, func(r *explore.Result) string {
			if !has(r, "DEADLOCK") || !has(r, "ok") {
				return fmt.Sprint("want DEADLOCK and ok, got ", r.OutcomeList())
			}
			return ""
		}},
		{"unbuffered rendezvous is one transition", explore.Options{Bound: -1, StartBranch: true}, rendezvous, func(r *explore.Result) string {
			if len(r.Outcomes) != 1 || !has(r, "got=7") {
				return fmt.Sprint("want got=7, got ", r.OutcomeList())
			}
			return ""
		}},
		{"select explores every ready case", explore.Options{Bound: 0, StartBranch: true}, selectTwo, func(r *explore.Result) string {
			if !has(r, "a1") || !has(r, "b2") || r.Executions != 2 {
				return fmt.Sprint("want a1 and b2 in 2 executions, got ", r.OutcomeList(), r.Executions)
			}
			return ""
		}},
		{"send on closed channel panics and is recoverable", explore.Options{Bound: 0, StartBranch: true}, sendClosedRecovered, func(r *explore.Result) string {
			if !has(r, "send on closed channel") {
				return fmt.Sprint("got ", r.OutcomeList())
			}
			return ""
		}},
		{"panic escaping a goroutine is process-fatal", explore.Options{Bound: -1, StartBranch: true}, sendClosedEscapes, func(r *explore.Result) string {
			for o := range r.Outcomes {
				if strings.HasPrefix(o, "FATAL panic: send on closed channel") {
					return ""
				}
			}
			return fmt.Sprint("got ", r.OutcomeList())
		}},
		{"non-blocking select facing a parked sender: both rendezvous and default", explore.Options{Bound: -1, StartBranch: true}, nonBlockingSelect, func(r *explore.Result) string {
			if len(r.Outcomes) != 2 || !has(r, "recv5") || !has(r, "default") {
				return fmt.Sprint("got ", r.OutcomeList())
			}
			return ""
		}},
		{"bounded receive buffer: a Write under way keeps other writers out, nothing is lost or interleaved", explore.Options{Bound: -1, StartBranch: true, Cache: true}, slowPipe(false), func(r *explore.Result) string {
			for o := range r.Outcomes {
				if o != "0123456789AB n1=10 timeout=false" && o != "AB0123456789 n1=10 timeout=false" {
					return fmt.Sprint("got ", r.OutcomeList())
				}
			}
			if len(r.Outcomes) != 2 {
				return fmt.Sprint("want both orders of the two writes, got ", r.OutcomeList())
			}
			return ""
		}},
		{"write deadline fails a Write that is already blocked, after the accepted part", explore.Options{Bound: 0, StartBranch: true}, slowPipe(true), func(r *explore.Result) string {
			if len(r.Outcomes) != 1 || !has(r, "0123 n1=4 timeout=true") {
				return fmt.Sprint("got ", r.OutcomeList())
			}
			return ""
		}},
		{"unlock of unlocked mutex is fatal", explore.Options{Bound: 0, StartBranch: true}, unlockUnlocked, func(r *explore.Result) string {
			if !has(r, "FATAL fatal error: sync: unlock of unlocked mutex") {
				return fmt.Sprint("got ", r.OutcomeList())
			}
			return ""
		}},
	}
	bad := 0
	for _, c := range cases {
		r := explore.Explore(c.opt, c.h)
		msg := c.expect(r)
		if r.HarnessError != "" {
			msg = r.HarnessError
		}
		if msg != "" {
			bad++
			fmt.Printf("SELFTEST FAIL %s: %s\n", c.name, msg)
		} else {
			fmt.Printf("selftest ok   %-62s executions=%d outcomes=%d\n", c.name, r.Executions, len(r.Outcomes))
		}
	}
	if bad > 0 {
		return 2
	}
	return 0
}

// Replay re-runs one recorded schedule with tracing on.
func Replay(spec *Spec, tier, path string) int {
	b, err := os.ReadFile(path)
	if err != nil {
		fmt.Println("ERROR harness:", err)
		return 2
	}
	var rf struct {
		Scenario string `json:"scenario"`
		Choices  []int  `json:"choices"`
		Verdict  string `json:"verdict"`
	}
	if err := json.Unmarshal(b, &rf); err != nil {
		fmt.Println("ERROR harness:", err)
		return 2
	}
	for _, t := range []string{tier, "quick", "thorough"} {
		for _, sc := range spec.Scenarios(t) {
			if sc.Name != rf.Scenario {
				continue
			}
			body, check := sc.H()
			s := vrt.Run(vrt.Config{Prefix: rf.Choices, MapBranch: sc.Opt.MapBranch, TimerBudget: sc.Opt.TimerBudget, GroupDepth: sc.Opt.GroupDepth,
				StartBranch: sc.Opt.StartBranch, Trace: true, Horizon: sc.Opt.Horizon}, body)
			v, _ := check(s)
			for _, l := range s.Log {
				fmt.Println("  ", l)
			}
			fmt.Printf("scenario %q\nrecorded verdict: %s\nreplayed verdict: %s\n", sc.Name, rf.Verdict, v)
			if v != "" {
				fmt.Printf("VIOLATION property=%s replay=%s\n", spec.ID, path)
				return 1
			}
			return 0
		}
	}
	fmt.Println("ERROR harness: scenario not found:", rf.Scenario)
	return 2
}
