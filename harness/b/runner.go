//go:build verif

package b

import (
	"bufio"
	"encoding/json"
	"fmt"
	"os"
	"os/exec"
	"sort"
	"strings"
	"sync"
	"time"

	"verif/evidence"
	"verif/explore"
	"verif/findings"
)

func sortStrings(s []string) { sort.Strings(s) }

// Scenario is one closed harness explored exhaustively within Opt.
type Scenario struct {
	Name  string
	Atoms []string
	Opt   explore.Options
	H     explore.Harness
	// Post, if set, inspects the whole result of the scenario (e.g. outcome-set oracles)
	// and returns an extra verdict ("" = fine).
	Post func(r *explore.Result) string
	// Fresh, if set, is the same harness over a gateway that is rebuilt for every execution.
	// It is the fallback when replays diverge: executions sharing one long-lived gateway are
	// only independent as long as the gateway keeps no state between them.
	Fresh func() explore.Harness
}

type Spec struct {
	ID          string
	Rule        string
	Assumptions []string
	Scenarios   func(tier string) []Scenario
	Shards      func(tier string) int // number of worker processes (<=1: in-process)
	Budget      func(tier string) time.Duration
}

var Specs = map[string]*Spec{}

type scenResult struct {
	Index        int               `json:"index"`
	Name         string            `json:"name"`
	Atoms        []string          `json:"atoms"`
	Executions   int               `json:"executions"`
	States       int               `json:"states"`
	Transitions  int               `json:"transitions"`
	Pruned       int               `json:"pruned"`
	Replays      int               `json:"replays"`
	WithDev      int               `json:"with_deviation"`
	MaxG         int               `json:"max_goroutines"`
	Outcomes     map[string]int    `json:"outcomes"`
	Failures     []explore.Failure `json:"failures"`
	Capped       string            `json:"capped"`
	Skipped      bool              `json:"skipped"`
	EngineError  string            `json:"engine_error"`
	FreshGateway string            `json:"fresh_gateway,omitempty"`
	Bound        int               `json:"bound"`
	Cache        bool              `json:"cache"`
}

func runScenario(i int, sc Scenario, deadline time.Time) scenResult {
	opt := sc.Opt
	if opt.Deadline.IsZero() || deadline.Before(opt.Deadline) {
		opt.Deadline = deadline
	}
	out := scenResult{Index: i, Name: sc.Name, Atoms: sc.Atoms, Bound: opt.Bound, Cache: opt.Cache}
	if time.Now().After(deadline) {
		out.Skipped = true
		out.Capped = "deadline before start"
		return out
	}
	r := explore.Explore(opt, sc.H)
	if r.HarnessError != "" && sc.Fresh != nil {
		shared := r.HarnessError
		r = explore.Explore(opt, sc.Fresh())
		out.FreshGateway = "executions on the shared gateway were not independent (" + shared + "); re-explored with a gateway built per execution"
	}
	out.Executions, out.States, out.Transitions, out.Pruned, out.Replays = r.Executions, r.States, r.Transitions, r.Pruned, r.Replays
	out.WithDev, out.MaxG, out.Outcomes, out.Failures, out.Capped, out.EngineError = r.WithDeviation, r.MaxGoroutines, r.Outcomes, r.Failures, r.Capped, r.HarnessError
	// outcome-set oracles are monotone (more executions can only add outcomes): they are evaluated on a
	// capped exploration too, what they report there stays true
	if sc.Post != nil {
		if v := sc.Post(r); v != "" {
			out.Failures = append(out.Failures, explore.Failure{Verdict: v})
		}
	}
	return out
}

// RunShard is a worker: it reads scenario indices from stdin, one per line, runs each and
// prints one JSON line per scenario (dynamic work distribution by the parent).
func RunShard(spec *Spec, tier string, shard, nshards int, deadline time.Time) {
	scs := spec.Scenarios(tier)
	w := bufio.NewWriter(os.Stdout)
	defer w.Flush()
	in := bufio.NewScanner(os.Stdin)
	for in.Scan() {
		var i int
		if _, err := fmt.Sscan(in.Text(), &i); err != nil || i < 0 || i >= len(scs) {
			// the parent waits for one line per index: a scenario list that differs between the processes
			// (it may depend on how the code under test behaves) must not leave both sides waiting
			w.WriteString("{}\n")
			w.Flush()
			continue
		}
		r := runScenario(i, scs[i], deadline)
		b, _ := json.Marshal(r)
		w.Write(b)
		w.WriteString("\n")
		w.Flush()
	}
}

// Main runs a whole property check and returns the process exit code.
func Main(spec *Spec, tier string) int {
	start := time.Now()
	budget := 10 * time.Minute
	if spec.Budget != nil {
		budget = spec.Budget(tier)
	}
	deadline := start.Add(budget)
	scs := spec.Scenarios(tier)
	// development aid: VERIF_SCENARIO=<substring> runs the matching scenarios in-process and prints their outcome sets
	if pat := os.Getenv("VERIF_SCENARIO"); pat != "" {
		for i, sc := range scs {
			if !strings.Contains(sc.Name, pat) {
				continue
			}
			r := runScenario(i, sc, deadline)
			fmt.Printf("scenario %q: executions=%d states=%d capped=%q\n", sc.Name, r.Executions, r.States, r.Capped)
			for o, n := range r.Outcomes {
				fmt.Printf("  %6dx %s\n", n, o)
			}
			for _, f := range r.Failures {
				fmt.Printf("  failure: %s choices=%v\n", f.Verdict, f.Choices)
			}
		}
		return 0
	}
	nsh := 1
	if spec.Shards != nil {
		nsh = spec.Shards(tier)
	}
	if nsh > len(scs) {
		nsh = len(scs)
	}
	var results []scenResult
	if nsh <= 1 {
		for i, sc := range scs {
			results = append(results, runScenario(i, sc, deadline))
		}
	} else {
		var mu sync.Mutex
		var wg sync.WaitGroup
		var shardErr string
		next := 0
		take := func() int {
			mu.Lock()
			defer mu.Unlock()
			if next >= len(scs) {
				return -1
			}
			next++
			return next - 1
		}
		for sh := 0; sh < nsh; sh++ {
			wg.Add(1)
			go func(sh int) {
				defer wg.Done()
				cmd := exec.Command(os.Args[0], "-shard", fmt.Sprintf("%d/%d", sh, nsh), "-deadline", fmt.Sprint(deadline.Unix()), spec.ID, tier)
				cmd.Env = append(os.Environ(), "GOMAXPROCS=1")
				cmd.Stderr = os.Stderr
				po, _ := cmd.StdoutPipe()
				pi, _ := cmd.StdinPipe()
				if err := cmd.Start(); err != nil {
					mu.Lock()
					shardErr = err.Error()
					mu.Unlock()
					return
				}
				// watchdog: a shard that is still busy long after the deadline is stuck outside the scheduler's control
				wd := time.AfterFunc(time.Until(deadline)+90*time.Second, func() { cmd.Process.Kill() })
				defer wd.Stop()
				sc := bufio.NewScanner(po)
				sc.Buffer(make([]byte, 1<<20), 1<<26)
				for {
					i := take()
					if i < 0 {
						break
					}
					fmt.Fprintln(pi, i)
					if !sc.Scan() {
						mu.Lock()
						shardErr = fmt.Sprintf("shard %d died while running scenario %q", sh, scs[i].Name)
						mu.Unlock()
						break
					}
					var r scenResult
					if json.Unmarshal(sc.Bytes(), &r) == nil && r.Name != "" {
						mu.Lock()
						results = append(results, r)
						mu.Unlock()
					}
				}
				pi.Close()
				cmd.Wait()
			}(sh)
		}
		wg.Wait()
		if shardErr != "" {
			fmt.Println("ERROR harness:", shardErr)
			return 2
		}
		sort.Slice(results, func(a, b int) bool { return results[a].Index < results[b].Index })
	}

	fs, err := findings.Load()
	if err != nil {
		fmt.Println("ERROR harness:", err)
		return 2
	}
	ev := &evidence.File{PropertyID: spec.ID, Tier: tier, Level: "model_checking", Assumptions: spec.Assumptions}
	tot := scenResult{Outcomes: map[string]int{}}
	exhaustive := true
	var capped []string
	var samples []interface{}
	violations := 0
	var vioLines []string
	nonTrivial := 0
	for _, r := range results {
		tot.Executions += r.Executions
		tot.States += r.States
		tot.Transitions += r.Transitions
		tot.Pruned += r.Pruned
		tot.Replays += r.Replays
		tot.WithDev += r.WithDev
		if r.MaxG > tot.MaxG {
			tot.MaxG = r.MaxG
		}
		for k, v := range r.Outcomes {
			tot.Outcomes[k] += v
		}
		if r.Executions > 1 {
			nonTrivial++
		}
		if r.EngineError != "" {
			fmt.Printf("ERROR engine: scenario %s: %s\n", r.Name, r.EngineError)
			return 2
		}
		if r.Capped != "" {
			exhaustive = false
			capped = append(capped, r.Name+": "+r.Capped)
		}
		if len(samples) < 4 && r.Executions > 0 {
			samples = append(samples, map[string]interface{}{"scenario": r.Name, "atoms": r.Atoms, "executions": r.Executions,
				"states": r.States, "bound": r.Bound, "state_cache": r.Cache, "outcomes": r.Outcomes})
		}
		for _, f := range r.Failures {
			sig := f.Verdict
			if e := fs.Match(spec.ID, r.Atoms, sig); e != nil {
				continue
			}
			violations++
			name := fmt.Sprintf("%s-%d", sanitize(r.Name), violations)
			p := evidence.WriteReplay(spec.ID, name, map[string]interface{}{"property": spec.ID, "scenario": r.Name, "atoms": r.Atoms,
				"verdict": f.Verdict, "choices": f.Choices, "log_tail": f.Log,
				"replay": fmt.Sprintf("./check %s --replay <this file>", spec.ID)})
			vioLines = append(vioLines, fmt.Sprintf("VIOLATION property=%s replay=%s", spec.ID, p))
			fmt.Printf("  violation in scenario %q: %s\n", r.Name, f.Verdict)
		}
	}
	if os.Getenv("VERIF_TRIAGE") != "" {
		type cl struct {
			n      int
			common map[string]bool
			ex     []string
		}
		cls := map[string]*cl{}
		for _, r := range results {
			for _, f := range r.Failures {
				c := cls[f.Verdict]
				if c == nil {
					c = &cl{common: map[string]bool{}}
					for _, a := range r.Atoms {
						c.common[a] = true
					}
					cls[f.Verdict] = c
				}
				have := map[string]bool{}
				for _, a := range r.Atoms {
					have[a] = true
				}
				for a := range c.common {
					if !have[a] {
						delete(c.common, a)
					}
				}
				c.n++
				if len(c.ex) < 4 {
					c.ex = append(c.ex, r.Name)
				}
			}
		}
		fmt.Println("==== TRIAGE ====")
		for v, c := range cls {
			var cm []string
			for a := range c.common {
				cm = append(cm, a)
			}
			sort.Strings(cm)
			fmt.Printf("%5d  %s\n       common: %s\n", c.n, v, strings.Join(cm, ","))
			for _, e := range c.ex {
				fmt.Printf("       e.g. %s\n", e)
			}
		}
	}
	// the largest scenarios (tuning aid and part of the coverage statement)
	big := append([]scenResult{}, results...)
	sort.Slice(big, func(i, j int) bool { return big[i].Executions > big[j].Executions })
	var largest []string
	for i := 0; i < len(big) && i < 8; i++ {
		largest = append(largest, fmt.Sprintf("%d executions / %d states: %s", big[i].Executions, big[i].States, big[i].Name))
	}
	known := fs.Report(spec.ID)
	ev.KnownFindings = known
	ev.Violations = violations
	outs := make([]string, 0, len(tot.Outcomes))
	for k, v := range tot.Outcomes {
		outs = append(outs, fmt.Sprintf("%dx %q", v, k))
	}
	sort.Strings(outs)
	if len(outs) > 40 {
		outs = append(outs[:40], fmt.Sprintf("... %d more", len(outs)-40))
	}
	if tot.States < 1 {
		tot.States = 1
	}
	ev.Coverage = map[string]interface{}{
		"states":                        tot.States,
		"transitions":                   tot.Transitions,
		"traces_validated_against_impl": tot.Executions + tot.Replays,
		"evaluations":                   tot.Executions,
		"distinct_nontrivial":           nonTrivial,
		"rule":                          spec.Rule,
		"samples":                       samples,
		"exhaustive":                    exhaustive,
		"scenarios":                     len(results),
		"executions":                    tot.Executions,
		"executions_with_deviation":     tot.WithDev,
		"pruned_by_state_cache":         tot.Pruned,
		"replay_determinism_checks":     tot.Replays,
		"max_goroutines_in_one_run":     tot.MaxG,
		"distinct_outcomes":             len(tot.Outcomes),
		"outcomes":                      outs,
		"caps_hit":                      capped,
		"largest_scenarios":             largest,
		"explanation":                   "every trace is an execution of the rewritten /repo sources under the vrt scheduler; no abstract model is involved",
	}
	if err := ev.Write(start); err != nil {
		fmt.Println("ERROR harness:", err)
		return 2
	}
	fmt.Printf("%s %s: scenarios=%d executions=%d states=%d transitions=%d outcomes=%d pruned=%d replays=%d exhaustive=%v wall=%.1fs\n",
		spec.ID, tier, len(results), tot.Executions, tot.States, tot.Transitions, len(tot.Outcomes), tot.Pruned, tot.Replays, exhaustive, time.Since(start).Seconds())
	for _, c := range capped {
		fmt.Println("  cap:", c)
	}
	for _, l := range vioLines {
		fmt.Println(l)
	}
	if violations > 0 {
		return 1
	}
	return 0
}

func sanitize(s string) string {
	var b strings.Builder
	for _, c := range s {
		if (c >= 'a' && c <= 'z') || (c >= 'A' && c <= 'Z') || (c >= '0' && c <= '9') || c == '-' {
			b.WriteRune(c)
		} else {
			b.WriteRune('_')
		}
	}
	out := b.String()
	if len(out) > 60 {
		out = out[:60]
	}
	return out
}
