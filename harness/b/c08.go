//go:build verif

package b

import (
	"encoding/json"
	"fmt"
	"strings"
	"time"

	"verif/a"
	"verif/explore"

	"github.com/buildbuildio/pebbles/vrt"
)

// C08: batched requests are answered in order and independently, under every interleaving
// (within the preemption bound) of the per-operation goroutines.

type c08Op struct {
	Name string
	Q    string
	// Ref: answered without faults - what the operation receives alone is taken from the reference
	// model (a fresh gateway's answer), not only from this gateway, whose earlier requests may have left something behind
	Ref bool
}

// c08Pool2: operations that share nothing but could be made to (no variables object and variable
// defaults of their own), and gateway-answered root fields next to failing service fields
var c08Pool2 = []c08Op{
	{"default5", "query ($a: Int = 5) { echo(x: $a) }", true},
	{"default8", "query ($a: Int = 8) { echo(x: $a) }", true},
	{"nodefault", "query ($a: Int) { echo(x: $a) }", true},
	{"typename+transport-fault", "{ __typename v { w { b } } }", false},
	{"schema+svc-errors", "{ __schema { queryType { name } } v { a } }", false},
	{"typename+ok", "{ __typename echo(x: 3) }", false},
}

var c08Pool = []c08Op{
	{Name: "q-s0", Q: "{ echo(x: 3) }"},
	{Name: "q-s1", Q: "{ n2 { title } }"},
	{Name: "q-cross", Q: "{ n1s { name phone } }"},
	{Name: "q-deep", Q: "{ n2 { owner { name n2s { title } } } }"},
	{Name: "mutation", Q: "mutation { incr(by: 3) }"},
	{Name: "introspection", Q: "{ __schema { queryType { name } } }"},
	{Name: "invalid", Q: "{ nope }"},
	{Name: "svc-errors", Q: "{ v { a } }"},            // the service answers this one with GraphQL errors
	{Name: "transport-fault", Q: "{ v { w { b } } }"}, // the call carrying this one fails at transport level
	{Name: "slow", Q: "{ n1s { n2s { owner { phone } } } }"},
	{Name: "ambiguous", Q: "query A { echo } query B { echo }"}, // valid document, rejected after validation (no operationName)
}

func c08Fault(q string) *a.Fault {
	nq := strings.Join(strings.Fields(q), " ")
	switch {
	case strings.Contains(nq, "v { a }"):
		return &a.Fault{Kind: "errors1", Pos: 0}
	case strings.Contains(nq, "w { b }"):
		return &a.Fault{Kind: "transport"}
	}
	return nil
}

func c08Harness(world string, ops []c08Op, cfg a.Config, fresh bool) explore.Harness {
	h := newGWHarness(world, cfg)
	h.setup = func(h *gwHarness) { h.fed.Fakes.FaultByQuery = c08Fault }
	h.setup(h)
	h.fresh = fresh
	// expected: what each operation receives when sent alone (pass-through mode)
	// (under the scheduler, default schedule: a crash of the gateway is a verdict, not the end of the check)
	want := make([]string, len(ops))
	pre := vrt.Run(vrt.Config{Horizon: 400000, NoKeys: true}, func() {
		for i, o := range ops {
			h.fed.Fakes.Reset()
			_, body := h.fed.Post(bodyOf(o.Q, nil), "application/json")
			var v interface{}
			json.Unmarshal(body, &v)
			want[i] = canonResp(v)
			if o.Ref {
				if ob := h.fed.Run(a.Case{Q: o.Q}); ob.Valid && ob.RefErr == "" {
					want[i] = canonResp(map[string]interface{}{"data": ob.RefData})
				}
			}
		}
	})
	aloneVerdict := verdictOfSched(pre)
	if aloneVerdict != "" {
		aloneVerdict = "an operation of the batch sent alone: " + aloneVerdict
	}
	var list []json.RawMessage
	for _, o := range ops {
		list = append(list, bodyOf(o.Q, nil))
	}
	batch, _ := json.Marshal(list)
	if len(ops) == 0 {
		batch = []byte("[]")
	}
	return func() (func(), func(*vrt.Sched) (string, string)) {
		h.begin()
		var status int
		var body []byte
		done := false
		run := func() {
			h.fed.Fakes.Reset()
			vrt.Explore(true)
			status, body = h.fed.Post(batch, "application/json")
			vrt.Explore(false)
			done = true
		}
		check := func(s *vrt.Sched) (string, string) {
			if aloneVerdict != "" {
				return aloneVerdict, aloneVerdict
			}
			if v := verdictOfSched(s); v != "" {
				return v, v
			}
			if !done {
				return "handler did not return", ""
			}
			if status != 200 {
				return fmt.Sprintf("status %d", status), ""
			}
			var res []interface{}
			if err := json.Unmarshal(body, &res); err != nil {
				return "batch response is not a JSON array", ""
			}
			if len(res) != len(ops) {
				return fmt.Sprintf("batch of %d answered with %d results", len(ops), len(res)), ""
			}
			for i := range ops {
				if got := canonResp(res[i]); got != want[i] {
					return fmt.Sprintf("result at position i differs from the single-request answer of operation i (%s)", ops[i].Name), got
				}
			}
			return "", "ok"
		}
		return run, check
	}
}

func c08Batches(maxLen int, pool []c08Op) [][]c08Op {
	out := [][]c08Op{{}}
	var rec func(cur []c08Op)
	rec = func(cur []c08Op) {
		if len(cur) == maxLen {
			return
		}
		for _, o := range pool {
			// at most one mutation per batch: the services' mutation counter is shared state
			if o.Name == "mutation" {
				dup := false
				for _, c := range cur {
					if c.Name == "mutation" {
						dup = true
					}
				}
				if dup {
					continue
				}
			}
			nx := append(append([]c08Op{}, cur...), o)
			out = append(out, nx)
			rec(nx)
		}
	}
	rec(nil)
	return out
}

func init() {
	Specs["C08"] = &Spec{
		ID: "C08",
		Rule: "scenario = one client batch over an 11-operation pool and, separately, over a 6-operation pool (variables with different defaults and no variables object, gateway-answered root fields next to failing and healthy service fields; the fault-free ones are also held to the reference model's answer); first pool: (queries on either service, cross-service and 3-level queries, a mutation, introspection, an invalid operation, an ambiguous two-operation document, an operation whose service answers with errors, " +
			"one whose downstream call fails at transport level); two granularities: operation-grained (scheduling choices between the goroutine subtrees of different operations, default order inside an operation: quick length<=2 at preemption bound 1 and length 3 at bound 0; " +
			"thorough bound 2 / 1) and fine-grained (every goroutine, every visible operation: two two-operation batches at bound 1 (thorough: 5 batches at bound 1, one at bound 2)); state-cached; " +
			"every schedule within the bound of the real Gateway.Handler (rewritten sources) is executed; oracle per execution: array of N results, result i == the answer operation i receives alone, no deadlock / fatal / leak; non-trivial = >1 execution",
		Assumptions: []string{
			"in-memory services yield to the scheduler once per HTTP call (completion order is a choice)",
			"schedules beyond the preemption bound are not covered; dependencies (gqlparser, net/http client path) are not instrumented",
		},
		Budget: func(tier string) time.Duration {
			if tier == "quick" {
				return 150 * time.Second
			}
			return 14 * time.Minute
		},
		Shards: func(string) int { return 16 },
		Scenarios: func(tier string) []Scenario {
			var out []Scenario
			add := func(batches [][]c08Op, bound int, group int, cfg a.Config) {
				for _, bt := range batches {
					var names []string
					for _, o := range bt {
						names = append(names, o.Name)
					}
					bt := bt
					gran := "fine-grained"
					if group > 0 {
						gran = "operation-grained"
					}
					out = append(out, Scenario{
						Name:  fmt.Sprintf("batch [%s] PB<=%d %s %s", strings.Join(names, ","), bound, gran, cfg.String()),
						Atoms: append([]string{fmt.Sprintf("len%d", len(bt))}, names...),
						Opt:   explore.Options{Bound: bound, Horizon: 200000, Cache: true, GroupDepth: group},
						H:     c08Harness("W0", bt, cfg, false),
						Fresh: func() explore.Harness { return c08Harness("W0", bt, cfg, true) },
					})
				}
			}
			all3 := c08Batches(3, c08Pool)
			var le2, eq3 [][]c08Op
			for _, b := range all3 {
				if len(b) <= 2 {
					le2 = append(le2, b)
				} else {
					eq3 = append(eq3, b)
				}
			}
			pick := func(names ...string) []c08Op {
				var b []c08Op
				for _, n := range names {
					for _, o := range c08Pool {
						if o.Name == n {
							b = append(b, o)
						}
					}
				}
				return b
			}
			small := [][]c08Op{pick("q-s0", "q-s1")}
			if tier == "thorough" {
				small = append(small, pick("invalid", "q-s0"), pick("q-s1", "introspection"), pick("q-s0", "q-s0"), pick("mutation", "q-s1"))
			}
			all3b := c08Batches(3, c08Pool2)
			var le2b, eq3b [][]c08Op
			for _, b := range all3b {
				if len(b) == 0 {
					continue
				}
				if len(b) <= 2 {
					le2b = append(le2b, b)
				} else {
					eq3b = append(eq3b, b)
				}
			}
			if tier == "quick" {
				add([][]c08Op{pick("invalid", "q-s0"), pick("introspection", "q-s1")}, 1, 0, a.DefaultConfig) // fine-grained, longest first
				add(le2b, 1, 1, a.DefaultConfig)
				add(eq3b, 0, 1, a.DefaultConfig)
				add(le2, 1, 1, a.DefaultConfig)
				add(eq3, 0, 1, a.DefaultConfig)
				return out
			}
			add(le2b, 2, 1, a.DefaultConfig)
			add(eq3b, 1, 1, a.DefaultConfig)
			add(le2, 2, 1, a.DefaultConfig)
			add(eq3, 1, 1, a.DefaultConfig)
			add(le2, 1, 1, a.Config{Merger: "extend", Planner: "cached", Hint: true})
			add(small, 1, 0, a.DefaultConfig)
			add(small[:1], 2, 0, a.DefaultConfig)
			return out
		},
	}
}
