//go:build verif

package b

import (
	"bufio"
	"encoding/json"
	"fmt"
	"net"
	"net/http"
	"strings"
	"time"

	"verif/a"
	"verif/gqlref"

	"github.com/buildbuildio/pebbles/planner"
	"github.com/buildbuildio/pebbles/vrt"
	"github.com/gobwas/ws"
	"github.com/gobwas/ws/wsutil"
	"github.com/vektah/gqlparser/v2"
	"github.com/vektah/gqlparser/v2/ast"
)

// ---------------------------------------------------------------------------------------
// hijackable ResponseWriter over a scheduler-aware pipe

type hijackWriter struct {
	conn   *vrt.Conn
	header http.Header
	status int
}

func (h *hijackWriter) Header() http.Header {
	if h.header == nil {
		h.header = http.Header{}
	}
	return h.header
}
func (h *hijackWriter) Write(b []byte) (int, error) { return h.conn.Write(b) }
func (h *hijackWriter) WriteHeader(code int)        { h.status = code }
func (h *hijackWriter) Hijack() (net.Conn, *bufio.ReadWriter, error) {
	return h.conn, bufio.NewReadWriter(bufio.NewReader(h.conn), bufio.NewWriter(h.conn)), nil
}

// connGuard models the life time of client connections for queryers made on their behalf:
// every handler invocation gets a connection token (header X-Conn); once the connection is
// over, a downstream call through a queryer that was created for it fails the way a call
// with a cancelled request context does.
type connGuard struct {
	n      int
	closed map[string]bool
}

func newConnGuard(f *a.Fed) *connGuard {
	g := &connGuard{closed: map[string]bool{}}
	f.Guard = func(pc *planner.PlanningContext, url string) error {
		if pc == nil || pc.Request == nil || pc.Request.Original == nil {
			return nil
		}
		if id := pc.Request.Original.Header.Get("X-Conn"); id != "" && g.closed[id] {
			return fmt.Errorf("context canceled: the client connection %s this queryer was created for is gone", id)
		}
		return nil
	}
	return g
}

func (g *connGuard) open() string    { g.n++; return fmt.Sprintf("conn%d", g.n) }
func (g *connGuard) close(id string) { g.closed[id] = true }

func upgradeRequest(connID ...string) *http.Request {
	r, _ := http.NewRequest("GET", "http://gateway/", nil)
	if len(connID) > 0 {
		r.Header.Set("X-Conn", connID[0])
	}
	r.Header.Set("Upgrade", "websocket")
	r.Header.Set("Connection", "Upgrade")
	r.Header.Set("Sec-WebSocket-Version", "13")
	r.Header.Set("Sec-WebSocket-Key", "dGhlIHNhbXBsZSBub25jZQ==")
	r.Header.Set("Sec-WebSocket-Protocol", "graphql-ws")
	r.Host = "gateway"
	return r
}

// ---------------------------------------------------------------------------------------
// fake graphql-ws upstream

type upAction string // "event" | "event-changed" | "complete" | "error" | "disconnect" | "errorpayload" | "dataerrors"

type upstream struct {
	index    int
	svc      int
	gwSide   *vrt.Conn // the end the gateway dialled (its Close is what C18 asks for)
	srvSide  *vrt.Conn
	started  bool
	query    string
	vars     map[string]interface{}
	script   []upAction
	emitted  int
	startedC chan int // signals the driver that the subscription is established
	goC      chan int // the driver releases the script
	doneC    chan int // the script is over (buffered, signalled once)
}

type wsEnv struct {
	fed       *a.Fed
	ups       []*upstream
	scripts   [][]upAction // script of the k-th upstream connection
	startedC  chan int
	eventBase int
	// epoch counts the changes of the services' data ("event-changed": once everything emitted so far has
	// been processed, every value but the ids changes and the previous event is emitted again)
	epoch int
}

func (e *wsEnv) install() {
	vrt.DialHook = func(network, address string) (net.Conn, error) {
		svc := -1
		for i, s := range e.fed.W.Services {
			if strings.Contains(s.URL, strings.Split(address, ":")[0]) {
				svc = i
			}
		}
		k := len(e.ups)
		gw, srv := vrt.Pipe(fmt.Sprintf("up%d", k))
		u := &upstream{index: k, svc: svc, gwSide: gw, srvSide: srv, startedC: e.startedC, goC: vrt.MakeChan[int](1), doneC: vrt.MakeChan[int](1)}
		if k < len(e.scripts) {
			u.script = e.scripts[k]
		}
		e.ups = append(e.ups, u)
		vrt.GoDaemon(fmt.Sprintf("upstream%d", k), func() { e.serveUpstream(u) })
		return gw, nil
	}
}

// eventPayload evaluates the subscribed root step for event number n at the service.
func (e *wsEnv) eventPayload(u *upstream, n int) map[string]interface{} {
	s := e.fed.W.Services[u.svc]
	doc, errs := gqlparser.LoadQuery(s.Schema, u.query)
	if errs != nil {
		return map[string]interface{}{"data": nil, "errors": []interface{}{map[string]interface{}{"message": "INVALID SUBREQUEST: " + errs[0].Message}}}
	}
	cnt := a.Counters{"__event": n}
	if e.epoch > 0 {
		cnt["__epoch"] = e.epoch
	}
	data, err := gqlref.Execute(s.Schema, e.fed.W.ForService(u.svc, cnt), doc.Operations[0], u.vars, nil)
	if err != nil {
		return map[string]interface{}{"data": nil, "errors": []interface{}{map[string]interface{}{"message": "VARIABLE ERROR: " + err.Error()}}}
	}
	return map[string]interface{}{"data": data}
}

func (e *wsEnv) serveUpstream(u *upstream) {
	conn := u.srvSide
	up := ws.Upgrader{Protocol: func([]byte) bool { return true }}
	if _, err := up.Upgrade(conn); err != nil {
		return
	}
	// read connection_init and start
	for !u.started {
		msg, err := wsutil.ReadClientText(conn)
		if err != nil {
			return
		}
		var m struct {
			Type    string `json:"type"`
			Payload struct {
				Query     string                 `json:"query"`
				Variables map[string]interface{} `json:"variables"`
			} `json:"payload"`
		}
		json.Unmarshal(msg, &m)
		if m.Type == "start" {
			u.started = true
			u.query = m.Payload.Query
			u.vars = m.Payload.Variables
		}
	}
	vrt.Send(u.startedC, u.index)
	vrt.Recv(u.goC)
	defer vrt.Send(u.doneC, 1)
	for _, act := range u.script {
		switch act {
		case "event":
			u.emitted++
			b, _ := json.Marshal(map[string]interface{}{"type": "data", "id": "1", "payload": e.eventPayload(u, e.eventBase+u.index*10+u.emitted)})
			if err := writeServerFrame(conn, b); err != nil {
				return
			}
		case "event-changed":
			vrt.WaitIdle() // the events emitted so far have been delivered (or are stuck for good)
			e.epoch++
			for _, c := range e.fed.Fakes.Cnt {
				c["__epoch"] = e.epoch
			}
			if u.emitted == 0 {
				u.emitted = 1
			}
			b, _ := json.Marshal(map[string]interface{}{"type": "data", "id": "1", "payload": e.eventPayload(u, e.eventBase+u.index*10+u.emitted)})
			if err := writeServerFrame(conn, b); err != nil {
				return
			}
		case "dataerrors":
			u.emitted++
			pl := e.eventPayload(u, e.eventBase+u.index*10+u.emitted)
			pl["errors"] = []interface{}{map[string]interface{}{"message": "partial failure upstream", "extensions": map[string]interface{}{"code": "PARTIAL"}}}
			b, _ := json.Marshal(map[string]interface{}{"type": "data", "id": "1", "payload": pl})
			if err := writeServerFrame(conn, b); err != nil {
				return
			}
		case "errorpayload":
			b, _ := json.Marshal(map[string]interface{}{"type": "data", "id": "1", "payload": map[string]interface{}{"data": nil, "errors": []interface{}{map[string]interface{}{"message": "upstream says no", "extensions": map[string]interface{}{"code": "UP"}}}}})
			if err := writeServerFrame(conn, b); err != nil {
				return
			}
		case "nullevent":
			// an event whose root field is null (nothing to stitch into)
			u.emitted++
			pl := e.eventPayload(u, e.eventBase+u.index*10+u.emitted)
			if d, ok := pl["data"].(map[string]interface{}); ok {
				for k := range d {
					d[k] = nil
				}
			} else if d, ok := pl["data"].(gqlref.Obj); ok {
				for k := range d {
					d[k] = nil
				}
			}
			b, _ := json.Marshal(map[string]interface{}{"type": "data", "id": "1", "payload": pl})
			if err := writeServerFrame(conn, b); err != nil {
				return
			}
		case "bigevent":
			// an event of some 20 kB (the gateway forwards what the service says, whatever the schema promises)
			u.emitted++
			b, _ := json.Marshal(map[string]interface{}{"type": "data", "id": "1", "payload": map[string]interface{}{"data": map[string]interface{}{"tick": strings.Repeat("0123456789abcdef", 1280)}}})
			if err := writeServerFrame(conn, b); err != nil {
				return
			}
		case "event-fragmented":
			// the same event as two websocket frames (a text frame without FIN and its continuation): what a service
			// whose library writes messages above its buffer size in pieces does
			u.emitted++
			b, _ := json.Marshal(map[string]interface{}{"type": "data", "id": "1", "payload": e.eventPayload(u, e.eventBase+u.index*10+u.emitted)})
			h := len(b) / 2
			for i, fr := range []ws.Frame{ws.NewFrame(ws.OpText, false, b[:h]), ws.NewFrame(ws.OpContinuation, true, b[h:])} {
				fb, err := ws.CompileFrame(fr)
				if err != nil {
					panic(err)
				}
				if _, err := conn.Write(fb); err != nil {
					return
				}
				_ = i
			}
		case "quiet11s":
			// the service has nothing to say for 11 s (keep-alives are optional in graphql-ws)
			vrt.Sleep(11 * time.Second)
		case "errorlist":
			// an error message whose payload is a list of errors (the other spelling services use); the stream goes on
			b, _ := json.Marshal(map[string]interface{}{"type": "error", "id": "1", "payload": []interface{}{map[string]interface{}{"message": "upstream list error", "extensions": map[string]interface{}{"code": "L"}}}})
			if err := writeServerFrame(conn, b); err != nil {
				return
			}
		case "complete":
			b, _ := json.Marshal(map[string]interface{}{"type": "complete", "id": "1"})
			if err := writeServerFrame(conn, b); err != nil {
				return
			}
		case "error":
			b, _ := json.Marshal(map[string]interface{}{"type": "error", "id": "1", "payload": map[string]interface{}{"message": "boom"}})
			if err := writeServerFrame(conn, b); err != nil {
				return
			}
		case "disconnect":
			conn.Close()
			return
		}
	}
	// the script is over; the gateway sends nothing more upstream, and whether it closed
	// its end is read off the connection object afterwards
}

// ---------------------------------------------------------------------------------------
// raw frame stream parser (what the client received)

type frame struct {
	Opcode  byte
	Payload []byte
}

// parseServerStream parses the bytes a websocket client received after the HTTP 101
// header into unmasked server frames.  ok=false: the stream is not a sequence of
// complete well-formed frames.
func parseServerStream(b []byte) (frames []frame, problem string) {
	i := strings.Index(string(b), "\r\n\r\n")
	if i < 0 {
		if len(b) == 0 {
			return nil, ""
		}
		return nil, "no HTTP upgrade response"
	}
	if !strings.HasPrefix(string(b), "HTTP/1.1 101") {
		return nil, "upgrade not accepted"
	}
	b = b[i+4:]
	// what follows a complete close frame is the connection being torn down, not protocol output any more: a writer
	// that was in the middle of a frame when the gateway closed the connection of a client that does not read leaves
	// a cut-off tail there (the statement asks for well-formed messages, the close frame ends them)
	closed := false
	inFragment := false
	var partial []byte
	trunc := func(problem string) ([]frame, string) {
		if closed {
			return frames, ""
		}
		return frames, problem
	}
	for len(b) > 0 {
		if len(b) < 2 {
			return trunc("truncated frame header")
		}
		b0, b1 := b[0], b[1]
		if b0&0x70 != 0 {
			return frames, "reserved bits set in a frame header"
		}
		op := b0 & 0x0f
		fin := b0&0x80 != 0
		if op != 0x0 && op != 0x1 && op != 0x8 && op != 0x9 && op != 0xa {
			return frames, fmt.Sprintf("unexpected opcode %d", op)
		}
		// fragmented messages (RFC 6455 5.4): a text frame without FIN, continuation frames, the last one with FIN;
		// control frames may come in between, another data frame may not
		switch {
		case op == 0x0 && !inFragment:
			return frames, "continuation frame without a message to continue"
		case op == 0x1 && inFragment:
			return frames, "a new data frame inside a fragmented message (frames of two writers interleaved)"
		case op >= 0x8 && !fin:
			return frames, "fragmented control frame"
		}
		if b1&0x80 != 0 {
			return frames, "server frame is masked"
		}
		n := int(b1 & 0x7f)
		off := 2
		switch n {
		case 126:
			if len(b) < 4 {
				return trunc("truncated extended length")
			}
			n = int(b[2])<<8 | int(b[3])
			off = 4
		case 127:
			if len(b) < 10 {
				return trunc("truncated extended length")
			}
			n = 0
			for k := 2; k < 10; k++ {
				n = n<<8 | int(b[k])
			}
			off = 10
		}
		if n < 0 || len(b) < off+n {
			return trunc("frame payload shorter than its header says")
		}
		if op == 0x8 {
			closed = true
		}
		switch {
		case op == 0x1 && !fin:
			inFragment = true
			partial = append([]byte(nil), b[off:off+n]...)
		case op == 0x0:
			partial = append(partial, b[off:off+n]...)
			if fin {
				inFragment = false
				frames = append(frames, frame{Opcode: 0x1, Payload: partial})
				partial = nil
			}
		default:
			frames = append(frames, frame{Opcode: op, Payload: append([]byte(nil), b[off:off+n]...)})
		}
		b = b[off+n:]
	}
	if inFragment && !closed {
		return frames, "stream ends inside a fragmented message"
	}
	return frames, ""
}

type wsMsg struct {
	Type    string                 `json:"type"`
	ID      string                 `json:"id"`
	Payload map[string]interface{} `json:"payload"`
}

// decodeMessages turns text frames into graphql-ws messages; problem != "" if a text
// frame is not a complete JSON graphql-ws message.
func decodeMessages(frames []frame) (msgs []wsMsg, problem string) {
	for _, f := range frames {
		switch f.Opcode {
		case 0x1:
			var m wsMsg
			if err := json.Unmarshal(f.Payload, &m); err != nil {
				return msgs, "text frame is not a JSON message"
			}
			switch m.Type {
			case "connection_ack", "ka", "data", "error", "complete", "connection_error":
			default:
				return msgs, "text frame carries an unknown message type"
			}
			msgs = append(msgs, m)
		}
	}
	return msgs, ""
}

// writeClientFrame sends one masked client text frame with a single Write (one visible operation).
func writeClientFrame(c net.Conn, payload []byte) error {
	f := ws.MaskFrameInPlaceWith(ws.NewTextFrame(append([]byte(nil), payload...)), [4]byte{1, 2, 3, 4})
	b, err := ws.CompileFrame(f)
	if err != nil {
		return err
	}
	_, err = c.Write(b)
	return err
}

// writeServerFrame sends one unmasked server text frame with a single Write.
func writeServerFrame(c net.Conn, payload []byte) error {
	b, err := ws.CompileFrame(ws.NewTextFrame(payload))
	if err != nil {
		return err
	}
	_, err = c.Write(b)
	return err
}

func clientMsg(typ, id string, payload interface{}) []byte {
	m := map[string]interface{}{"type": typ}
	if id != "" {
		m["id"] = id
	}
	if payload != nil {
		m["payload"] = payload
	}
	b, _ := json.Marshal(m)
	return b
}

func subscriptionRoots(s *ast.Schema) []string {
	var out []string
	if s.Subscription != nil {
		for _, f := range s.Subscription.Fields {
			if !strings.HasPrefix(f.Name, "__") {
				out = append(out, f.Name)
			}
		}
	}
	return out
}
