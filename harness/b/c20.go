//go:build verif

package b

import (
	"errors"
	"fmt"
	"strconv"
	"strings"

	"verif/explore"

	"github.com/buildbuildio/pebbles/common"
	"github.com/buildbuildio/pebbles/gqlerrors"
	"github.com/buildbuildio/pebbles/vrt"
)

// C20: the real generic AsyncMapReduce (rewritten from /repo's working tree) instantiated
// with recording map/reduce functions; reduceFunc contains visible operations on a shared
// "reducer" object so that overlapping reductions are both schedulable and distinguished
// by the state cache.

type c20obs struct {
	mapped     map[int]int
	reduced    map[int]int
	inReduce   int
	overlap    bool
	retAcc     []int
	retErrs    []string
	doneAt     int
	returned   bool
	lateReduce int // reductions that happened after AsyncMapReduce returned
}

func c20Harness(n, errMask int) explore.Harness { return c20HarnessMsg(n, errMask, false) }

// sameMsg: every failing item fails with the same message (errors are values, not a set)
func c20HarnessMsg(n, errMask int, sameMsg bool) explore.Harness {
	return func() (func(), func(*vrt.Sched) (string, string)) {
		o := &c20obs{mapped: map[int]int{}, reduced: map[int]int{}}
		body := func() {
			items := make([]int, n)
			for i := range items {
				items[i] = i
			}
			done := 0
			acc, errs := common.AsyncMapReduce(items, []int{}, func(i int) (int, error) {
				vrt.Touch("map")
				o.mapped[i]++
				if errMask&(1<<i) != 0 {
					if sameMsg {
						return 0, errors.New("connection refused")
					}
					return 0, errors.New("e" + strconv.Itoa(i))
				}
				return i, nil
			}, func(acc []int, v int) []int {
				vrt.Touch("reducer")
				o.inReduce++
				if o.inReduce > 1 {
					o.overlap = true
				}
				if o.returned {
					o.lateReduce++
				}
				vrt.Touch("reducer")
				o.reduced[v]++
				o.inReduce--
				done++
				return append(acc, v)
			})
			o.retAcc = append([]int{}, acc...)
			for _, e := range errs {
				o.retErrs = append(o.retErrs, e.Message)
			}
			o.doneAt = done
			o.returned = true
			vrt.Touch("reducer")
		}
		check := func(s *vrt.Sched) (string, string) {
			if sameMsg {
				for i, e := range o.retErrs {
					if e != "connection refused" {
						return "returned error differs from the injected one: " + e, ""
					}
					o.retErrs[i] = ""
				}
				k := 0
				for i := 0; i < n; i++ {
					if errMask&(1<<i) != 0 {
						if k < len(o.retErrs) {
							o.retErrs[k] = "e" + strconv.Itoa(i)
						}
						k++
					}
				}
				if k != len(o.retErrs) {
					v := fmt.Sprintf("%d items failed (all with the same message), %d errors returned", k, len(o.retErrs))
					return v, v
				}
			}
			v := c20Verdict(n, errMask, s, o)
			return v, v
		}
		return body, check
	}
}

// c20HarnessPtr: results of a nillable type; items in nilMask succeed with a nil result (which is a
// result like any other: reduce is applied to it), items in errMask fail.
func c20HarnessPtr(n, errMask, nilMask int) explore.Harness {
	return func() (func(), func(*vrt.Sched) (string, string)) {
		reduceCalls, nilSeen, returned := 0, 0, false
		var errs []string
		body := func() {
			items := make([]int, n)
			for i := range items {
				items[i] = i
			}
			_, es := common.AsyncMapReduce(items, 0, func(i int) (*int, error) {
				vrt.Touch("map")
				switch {
				case errMask&(1<<i) != 0:
					return nil, errors.New("e" + strconv.Itoa(i))
				case nilMask&(1<<i) != 0:
					return nil, nil
				}
				v := i
				return &v, nil
			}, func(acc int, v *int) int {
				vrt.Touch("reducer")
				reduceCalls++
				if v == nil {
					nilSeen++
				}
				return acc + 1
			})
			for _, e := range es {
				errs = append(errs, e.Message)
			}
			returned = true
		}
		check := func(s *vrt.Sched) (string, string) {
			if s.Fatal != "" {
				return "FATAL " + s.Fatal + " in " + roleOf(s.FatalG), ""
			}
			if !returned {
				return "DEADLOCK caller never returned; stuck=" + strings.Join(s.Stuck, ","), ""
			}
			succ, nils, fails := 0, 0, 0
			for i := 0; i < n; i++ {
				switch {
				case errMask&(1<<i) != 0:
					fails++
				case nilMask&(1<<i) != 0:
					succ++
					nils++
				default:
					succ++
				}
			}
			if reduceCalls != succ || nilSeen != nils {
				v := fmt.Sprintf("reduce applied to %d of %d successful results (%d of %d nil results)", reduceCalls, succ, nilSeen, nils)
				return v, v
			}
			if len(errs) != fails {
				v := fmt.Sprintf("%d items failed, %d errors returned", fails, len(errs))
				return v, v
			}
			return "", "ok"
		}
		return body, check
	}
}

// c20HarnessStoredErrors: two calls one after the other; in each the first item fails with the same stored
// gqlerrors.ErrorList value (one entry, spare capacity - what append leaves behind) and the second with an
// error of its own. Each call returns exactly its two errors, and what a call returned does not change afterwards.
func c20HarnessStoredErrors() explore.Harness {
	return func() (func(), func(*vrt.Sched) (string, string)) {
		var first, firstLater, second []string
		returned := false
		body := func() {
			stored := append(make(gqlerrors.ErrorList, 0, 4), &gqlerrors.Error{Message: "stored"})
			call := func(tag string) gqlerrors.ErrorList {
				_, es := common.AsyncMapReduce([]int{0, 1}, 0, func(i int) (int, error) {
					vrt.Touch("map")
					if i == 0 {
						return 0, stored
					}
					return 0, errors.New(tag)
				}, func(acc int, v int) int { return acc + v })
				return es
			}
			msgs := func(es gqlerrors.ErrorList) []string {
				var out []string
				for _, e := range es {
					out = append(out, e.Message)
				}
				sortStrings(out)
				return out
			}
			a := call("A1")
			first = msgs(a)
			b := call("B1")
			second = msgs(b)
			firstLater = msgs(a)
			returned = true
		}
		check := func(s *vrt.Sched) (string, string) {
			if s.Fatal != "" {
				return "FATAL " + s.Fatal + " in " + roleOf(s.FatalG), ""
			}
			if !returned {
				return "DEADLOCK caller never returned; stuck=" + strings.Join(s.Stuck, ","), ""
			}
			if strings.Join(first, ",") != "A1,stored" || strings.Join(second, ",") != "B1,stored" {
				v := fmt.Sprintf("returned errors differ from the injected ones: first call %v, second call %v", first, second)
				return v, v
			}
			if strings.Join(firstLater, ",") != strings.Join(first, ",") {
				v := fmt.Sprintf("the errors the first call returned changed after the second call: %v -> %v", first, firstLater)
				return v, v
			}
			return "", "ok"
		}
		return body, check
	}
}

func c20Verdict(n, errMask int, s *vrt.Sched, o *c20obs) string {
	if s.Fatal != "" {
		return "FATAL " + s.Fatal + " in " + roleOf(s.FatalG)
	}
	if s.RootPanic != "" {
		return "PANIC in caller: " + s.RootPanic
	}
	if !o.returned {
		return "DEADLOCK caller never returned; stuck=" + strings.Join(s.Stuck, ",")
	}
	if s.Deadlock {
		return "LEAK goroutines left behind: " + stuckRoles(s.Stuck)
	}
	succ := 0
	for i := 0; i < n; i++ {
		if o.mapped[i] != 1 {
			return fmt.Sprintf("item mapped %d times", o.mapped[i])
		}
		if errMask&(1<<i) == 0 {
			succ++
			if o.reduced[i] != 1 {
				return fmt.Sprintf("successful result reduced %d times", o.reduced[i])
			}
		} else if o.reduced[i] != 0 {
			return "failed item reduced"
		}
	}
	if o.reduced[0] > 1 || len(o.reduced) > n {
		return "spurious reduction"
	}
	for v := range o.reduced {
		if v < 0 || v >= n {
			return "spurious reduction of a value that was never mapped"
		}
	}
	if o.overlap {
		return "reduce ran concurrently with itself"
	}
	if o.lateReduce > 0 {
		return "reduce ran after the helper returned"
	}
	if o.doneAt != succ {
		return fmt.Sprintf("returned after %d of %d reductions", o.doneAt, succ)
	}
	if len(o.retAcc) != succ {
		return fmt.Sprintf("accumulator holds %d of %d results", len(o.retAcc), succ)
	}
	want := map[string]int{}
	for i := 0; i < n; i++ {
		if errMask&(1<<i) != 0 {
			want["e"+strconv.Itoa(i)]++
		}
	}
	for _, e := range o.retErrs {
		want[e]--
	}
	for _, c := range want {
		if c != 0 {
			return fmt.Sprintf("returned errors %v differ from injected ones", o.retErrs)
		}
	}
	return ""
}

// roleOf abstracts a goroutine label to a role (drops spawn-path numbers).
func roleOf(label string) string {
	if i := strings.Index(label, "("); i > 0 {
		return label[:i]
	}
	return "goroutine"
}

func stuckRoles(st []string) string {
	m := map[string]int{}
	for _, x := range st {
		at := strings.LastIndex(x, "@")
		m[roleOf(x[:at])+x[at:]]++
	}
	var out []string
	for k, v := range m {
		out = append(out, fmt.Sprintf("%dx%s", v, k))
	}
	sortStrings(out)
	return strings.Join(out, ",")
}
