//go:build verif

package b

import (
	"errors"
	"fmt"
	"strconv"
	"strings"

	"verif/explore"

	"github.com/buildbuildio/pebbles/common"
	"github.com/buildbuildio/pebbles/vrt"
)

// C20: the real generic AsyncMapReduce (rewritten from /repo's working tree) instantiated
// with recording map/reduce functions; reduceFunc contains visible operations on a shared
// "reducer" object so that overlapping reductions are both schedulable and distinguished
// by the state cache.

type c20obs struct {
	mapped     map[int]int
	reduced    map[int]int
	inReduce   int
	overlap    bool
	retAcc     []int
	retErrs    []string
	doneAt     int
	returned   bool
	lateReduce int // reductions that happened after AsyncMapReduce returned
}

func c20Harness(n, errMask int) explore.Harness { return c20HarnessMsg(n, errMask, false) }

// sameMsg: every failing item fails with the same message (errors are values, not a set)
func c20HarnessMsg(n, errMask int, sameMsg bool) explore.Harness {
	return func() (func(), func(*vrt.Sched) (string, string)) {
		o := &c20obs{mapped: map[int]int{}, reduced: map[int]int{}}
		body := func() {
			items := make([]int, n)
			for i := range items {
				items[i] = i
			}
			done := 0
			acc, errs := common.AsyncMapReduce(items, []int{}, func(i int) (int, error) {
				vrt.Touch("map")
				o.mapped[i]++
				if errMask&(1<<i) != 0 {
					if sameMsg {
						return 0, errors.New("connection refused")
					}
					return 0, errors.New("e" + strconv.Itoa(i))
				}
				return i, nil
			}, func(acc []int, v int) []int {
				vrt.Touch("reducer")
				o.inReduce++
				if o.inReduce > 1 {
					o.overlap = true
				}
				if o.returned {
					o.lateReduce++
				}
				vrt.Touch("reducer")
				o.reduced[v]++
				o.inReduce--
				done++
				return append(acc, v)
			})
			o.retAcc = append([]int{}, acc...)
			for _, e := range errs {
				o.retErrs = append(o.retErrs, e.Message)
			}
			o.doneAt = done
			o.returned = true
			vrt.Touch("reducer")
		}
		check := func(s *vrt.Sched) (string, string) {
			if sameMsg {
				for i, e := range o.retErrs {
					if e != "connection refused" {
						return "returned error differs from the injected one: " + e, ""
					}
					o.retErrs[i] = ""
				}
				k := 0
				for i := 0; i < n; i++ {
					if errMask&(1<<i) != 0 {
						if k < len(o.retErrs) {
							o.retErrs[k] = "e" + strconv.Itoa(i)
						}
						k++
					}
				}
				if k != len(o.retErrs) {
					v := fmt.Sprintf("%d items failed (all with the same message), %d errors returned", k, len(o.retErrs))
					return v, v
				}
			}
			v := c20Verdict(n, errMask, s, o)
			return v, v
		}
		return body, check
	}
}

func c20Verdict(n, errMask int, s *vrt.Sched, o *c20obs) string {
	if s.Fatal != "" {
		return "FATAL " + s.Fatal + " in " + roleOf(s.FatalG)
	}
	if s.RootPanic != "" {
		return "PANIC in caller: " + s.RootPanic
	}
	if !o.returned {
		return "DEADLOCK caller never returned; stuck=" + strings.Join(s.Stuck, ",")
	}
	if s.Deadlock {
		return "LEAK goroutines left behind: " + stuckRoles(s.Stuck)
	}
	succ := 0
	for i := 0; i < n; i++ {
		if o.mapped[i] != 1 {
			return fmt.Sprintf("item mapped %d times", o.mapped[i])
		}
		if errMask&(1<<i) == 0 {
			succ++
			if o.reduced[i] != 1 {
				return fmt.Sprintf("successful result reduced %d times", o.reduced[i])
			}
		} else if o.reduced[i] != 0 {
			return "failed item reduced"
		}
	}
	if o.reduced[0] > 1 || len(o.reduced) > n {
		return "spurious reduction"
	}
	for v := range o.reduced {
		if v < 0 || v >= n {
			return "spurious reduction of a value that was never mapped"
		}
	}
	if o.overlap {
		return "reduce ran concurrently with itself"
	}
	if o.lateReduce > 0 {
		return "reduce ran after the helper returned"
	}
	if o.doneAt != succ {
		return fmt.Sprintf("returned after %d of %d reductions", o.doneAt, succ)
	}
	if len(o.retAcc) != succ {
		return fmt.Sprintf("accumulator holds %d of %d results", len(o.retAcc), succ)
	}
	want := map[string]int{}
	for i := 0; i < n; i++ {
		if errMask&(1<<i) != 0 {
			want["e"+strconv.Itoa(i)]++
		}
	}
	for _, e := range o.retErrs {
		want[e]--
	}
	for _, c := range want {
		if c != 0 {
			return fmt.Sprintf("returned errors %v differ from injected ones", o.retErrs)
		}
	}
	return ""
}

// roleOf abstracts a goroutine label to a role (drops spawn-path numbers).
func roleOf(label string) string {
	if i := strings.Index(label, "("); i > 0 {
		return label[:i]
	}
	return "goroutine"
}

func stuckRoles(st []string) string {
	m := map[string]int{}
	for _, x := range st {
		at := strings.LastIndex(x, "@")
		m[roleOf(x[:at])+x[at:]]++
	}
	var out []string
	for k, v := range m {
		out = append(out, fmt.Sprintf("%dx%s", v, k))
	}
	sortStrings(out)
	return strings.Join(out, ",")
}
