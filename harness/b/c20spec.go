//go:build verif

package b

import (
	"fmt"
	"time"

	"verif/explore"
)

func init() {
	Specs["C20"] = &Spec{
		ID: "C20",
		Rule: "scenario = (list length n, success/error pattern); every interleaving of the real AsyncMapReduce's workers, reducer and caller is enumerated " +
			"(unbounded with state caching; additionally preemption-bounded without caching as a cross-check); plus every pattern with >=2 failures where all failures carry the same message; plus results of a nillable type with every pattern of nil results (n<=3), and two calls whose failing item returns one stored ErrorList value with spare capacity; plus long lists (n = 17, 33, 40, 65, 129, 257, 1025) under the default schedule only, as size-threshold probes; a scenario is non-trivial if it has >1 execution",
		Assumptions: []string{
			"rewrite rules of vrewrite and channel/WaitGroup semantics of vrt (self-tests in setup)",
			"state caching assumes data-race freedom of un-hooked memory; harness observations are made visible with vrt.Touch",
			"map/reduce functions are harness-supplied and contain one scheduling point each",
		},
		Budget: func(tier string) time.Duration {
			if tier == "quick" {
				return 60 * time.Second
			}
			return 8 * time.Minute
		},
		Scenarios: func(tier string) []Scenario {
			maxN, crossN, crossPB := 3, 3, 2
			if tier == "thorough" {
				maxN, crossN, crossPB = 5, 4, 2
			}
			var out []Scenario
			for n := 0; n <= maxN; n++ {
				for mask := 0; mask < 1<<n; mask++ {
					out = append(out, Scenario{
						Name:  fmt.Sprintf("n=%d errmask=%0*b all-interleavings cached", n, n, mask),
						Atoms: []string{fmt.Sprintf("n%d", n)},
						Opt:   explore.Options{Bound: -1, Cache: true, StartBranch: true},
						H:     c20Harness(n, mask),
					})
				}
			}
			// every failing item fails with the same message
			for n := 2; n <= maxN; n++ {
				for mask := 0; mask < 1<<n; mask++ {
					if mask&(mask-1) == 0 {
						continue // fewer than two failures
					}
					out = append(out, Scenario{
						Name:  fmt.Sprintf("n=%d errmask=%0*b identical error messages, all-interleavings cached", n, n, mask),
						Atoms: []string{fmt.Sprintf("n%d", n), "same-message"},
						Opt:   explore.Options{Bound: -1, Cache: true, StartBranch: true},
						H:     c20HarnessMsg(n, mask, true),
					})
				}
			}
			// results of a nillable type, some of them nil without an error; errors that are stored ErrorList values
			for n := 1; n <= 3; n++ {
				for mask := 0; mask < 1<<n; mask++ {
					for nm := 1; nm < 1<<n; nm++ {
						if nm&mask != 0 {
							continue
						}
						out = append(out, Scenario{
							Name:  fmt.Sprintf("n=%d errmask=%0*b nilmask=%0*b pointer results, all-interleavings cached", n, n, mask, n, nm),
							Atoms: []string{fmt.Sprintf("n%d", n), "nil-results"},
							Opt:   explore.Options{Bound: -1, Cache: true, StartBranch: true},
							H:     c20HarnessPtr(n, mask, nm),
						})
					}
				}
			}
			out = append(out, Scenario{
				Name:  "two calls whose first item fails with one stored ErrorList value (spare capacity), all-interleavings cached",
				Atoms: []string{"n2", "stored-error-list"},
				Opt:   explore.Options{Bound: -1, Cache: true, StartBranch: true},
				H:     c20HarnessStoredErrors(),
			})
			for n := 2; n <= crossN; n++ {
				for mask := 0; mask < 1<<n; mask++ {
					out = append(out, Scenario{
						Name:  fmt.Sprintf("n=%d errmask=%0*b PB<=%d uncached", n, n, mask, crossPB),
						Atoms: []string{fmt.Sprintf("n%d", n)},
						Opt:   explore.Options{Bound: crossPB, Cache: false, StartBranch: true},
						H:     c20Harness(n, mask),
					})
				}
			}
			// size thresholds (e.g. a worker pool): long lists under the default schedule and one preemption
			for _, n := range []int{17, 33, 40, 65, 129, 257, 1025} {
				for _, mask := range []int{0, 1 << 3, 1<<3 | 1<<19} {
					if mask>>n != 0 {
						continue
					}
					out = append(out, Scenario{
						Name:  fmt.Sprintf("n=%d errors at %b default schedule only (size threshold probe)", n, mask),
						Atoms: []string{"large-n"},
						Opt:   explore.Options{Bound: 0, StartBranch: false},
						H:     c20Harness(n, mask),
					})
				}
			}
			return out
		},
		Shards: func(tier string) int {
			if tier == "thorough" {
				return 16
			}
			return 8
		},
	}
}
