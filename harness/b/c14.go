//go:build verif

package b

import (
	"encoding/json"
	"fmt"
	"strings"
	"time"

	"verif/a"
	"verif/explore"

	"github.com/buildbuildio/pebbles/planner"
	"github.com/buildbuildio/pebbles/vrt"
)

// C14: the plan cache never changes an answer.

type c14Op struct {
	Name string
	Q    string
	Vars map[string]interface{}
	Op   string
}

var c14Pool = []c14Op{
	{Name: "q-both", Q: "{ both(x: 1) }"},
	{Name: "m-both", Q: "mutation { both(x: 1) }"},
	{Name: "named-A", Q: "query A { both(x: 1) }"},
	{Name: "named-B", Q: "query B { both(x: 1) }"},
	{Name: "var-Int", Q: "query ($v: Int) { both(x: $v) }", Vars: map[string]interface{}{"v": 1}},
	{Name: "var-Int-v2", Q: "query ($v: Int) { both(x: $v) }", Vars: map[string]interface{}{"v": 2}},
	{Name: "var-default-1", Q: "query ($v: Int = 1) { both(x: $v) }"},
	{Name: "var-default-2", Q: "query ($v: Int = 2) { both(x: $v) }"},
	{Name: "frag-name", Q: "{ n1s { ...F } } fragment F on N1 { name }"},
	{Name: "frag-phone", Q: "{ n1s { ...F } } fragment F on N1 { phone }"},
	{Name: "alias-a", Q: "{ a: echo }"},
	{Name: "alias-b", Q: "{ b: echo }"},
	{Name: "cross", Q: "{ n1s { name phone } }"},
	{Name: "cross-with-id", Q: "{ n1s { id name phone } }"}, // the text the planner turns "cross" into
	{Name: "var-Int-omitted", Q: "query ($v: Int) { both(x: $v) }", Vars: map[string]interface{}{}},
	{Name: "child-var", Q: "query ($x: Int) { n2 { owner { calc(x: $x) } } }", Vars: map[string]interface{}{}},
	{Name: "child-var-3", Q: "query ($x: Int) { n2 { owner { calc(x: $x) } } }", Vars: map[string]interface{}{"x": 3}},
	{Name: "two-ops-X", Q: "query X { echo(x: 1) } query Y { n2 { title } }", Op: "X"},
	{Name: "two-ops-Y", Q: "query X { echo(x: 1) } query Y { n2 { title } }", Op: "Y"},
	{Name: "intro-var-N1", Q: "query ($n: String!) { __type(name: $n) { name kind } }", Vars: map[string]interface{}{"n": "N1"}},
	{Name: "intro-var-V", Q: "query ($n: String!) { __type(name: $n) { name kind } }", Vars: map[string]interface{}{"n": "V"}}, // same document, other variable value
	{Name: "frag-on-IA", Q: "{ things { ...F } } fragment F on IA { a }"},
	{Name: "frag-on-IB", Q: "{ things { ...F } } fragment F on IB { a }"}, // differs from the previous one in the named fragment's type condition only
	// the same entity reached at two insertion points with different selections from the other service (two lookups of one id in one depth)
	{Name: "same-node-two-selections", Q: "{ a: n2 { owner { name } } b: n2 { owner { calc(x: 2) } } }"},
	// one document whose plan-relevant part hangs on a variable value: a field of another service skipped or not
	{Name: "skip-var-true", Q: "query ($h: Boolean!) { n2 { title owner { phone name @skip(if: $h) } } }", Vars: map[string]interface{}{"h": true}},
	// operations that differ in their variable definitions only: the default the cached AST carries, the type a variable inside a custom scalar literal is declared with
	{Name: "intro-default-Query", Q: "query T($n: String! = \"Query\") { __type(name: $n) { name } }"},
	{Name: "intro-no-default", Q: "query T($n: String!) { __type(name: $n) { name } }"},
	{Name: "scalar-literal-var-Int", Q: "query Q($x: Int) { when(at: {a: $x}) }", Vars: map[string]interface{}{"x": 1}},
	{Name: "scalar-literal-var-String", Q: "query Q($x: String) { when(at: {a: $x}) }", Vars: map[string]interface{}{"x": "s"}},
	// an operation that validates but that the planner rejects (a known finding of C02): the error is the answer every time
	{Name: "planner-rejects", Q: "query { node(id: \"N1_1\") { ... @skip(if: true) { ... on N2 { title } } } }"},
	{Name: "skip-var-false", Q: "query ($h: Boolean!) { n2 { title owner { phone name @skip(if: $h) } } }", Vars: map[string]interface{}{"h": false}},
}

const c14World = "W0+same-root-name-query-mutation+interface-value+root-custom-scalar"

func (o c14Op) body() json.RawMessage {
	m := map[string]interface{}{"query": o.Q}
	if o.Vars != nil {
		m["variables"] = o.Vars
	}
	if o.Op != "" {
		m["operationName"] = o.Op
	}
	b, _ := json.Marshal(m)
	return b
}

// history letters: index into the pool, or -1 = tick (clock jumps past the TTL)
func c14HistoryHarness(cached, plain *gwHarness, hist []int, ttl time.Duration) explore.Harness {
	return func() (func(), func(*vrt.Sched) (string, string)) {
		var gotC, gotP []string
		run := func() {
			cached.fed.SetPlanner(planner.NewCachedPlanner(ttl))
			cached.fed.Fakes.Reset()
			plain.fed.Fakes.Reset()
			for _, l := range hist {
				if l < 0 {
					vrt.AdvanceClock(ttl + time.Millisecond)
					continue
				}
				vrt.AdvanceClock(time.Millisecond) // real time passes between requests
				_, bc := cached.fed.Post(c14Pool[l].body(), "application/json")
				_, bp := plain.fed.Post(c14Pool[l].body(), "application/json")
				var vc, vp interface{}
				json.Unmarshal(bc, &vc)
				json.Unmarshal(bp, &vp)
				gotC = append(gotC, canonResp(vc))
				gotP = append(gotP, canonResp(vp))
			}
		}
		check := func(s *vrt.Sched) (string, string) {
			if v := verdictOfSched(s); v != "" {
				return v, v
			}
			k := 0
			for _, l := range hist {
				if l < 0 {
					continue
				}
				if gotC[k] != gotP[k] {
					return "request " + c14Pool[l].Name + " is answered differently with the caching planner than with the plain planner", "differs"
				}
				k++
			}
			return "", "same"
		}
		return run, check
	}
}

func c14Name(hist []int) string {
	var p []string
	for _, l := range hist {
		if l < 0 {
			p = append(p, "tick")
		} else {
			p = append(p, c14Pool[l].Name)
		}
	}
	return strings.Join(p, " ; ")
}

func c14Atoms(hist []int) []string {
	set := map[string]bool{}
	for _, l := range hist {
		if l < 0 {
			set["tick"] = true
		} else {
			set["op-"+c14Pool[l].Name] = true
		}
	}
	var out []string
	for k := range set {
		out = append(out, k)
	}
	sortStrings(out)
	return out
}

// concurrent part: two clients on one cached gateway
func c14ConcHarness(cached *gwHarness, want map[string]string, c1, c2 []int, ttl time.Duration) explore.Harness {
	return func() (func(), func(*vrt.Sched) (string, string)) {
		got := map[string][]string{}
		finished := 0
		run := func() {
			cached.fed.SetPlanner(planner.NewCachedPlanner(ttl))
			cached.fed.Fakes.Reset()
			done := vrt.MakeChan[int](2)
			client := func(ops []int) func() {
				return func() {
					for _, l := range ops {
						if l < 0 {
							// the clock jumps past the TTL while the other client's request may be under way
							vrt.Touch("clock")
							vrt.AdvanceClock(ttl + time.Second)
							continue
						}
						_, b := cached.fed.Post(c14Pool[l].body(), "application/json")
						var v interface{}
						json.Unmarshal(b, &v)
						vrt.Touch("results")
						got[c14Pool[l].Name] = append(got[c14Pool[l].Name], canonResp(v))
					}
					vrt.Send(done, 1)
				}
			}
			vrt.Explore(true)
			vrt.GoNamed("client1", client(c1))
			vrt.GoNamed("client2", client(c2))
			vrt.Recv(done)
			vrt.Recv(done)
			vrt.Explore(false)
			finished = 2
		}
		check := func(s *vrt.Sched) (string, string) {
			if v := verdictOfSched(s); v != "" {
				return v, v
			}
			if finished != 2 {
				return "clients did not finish", ""
			}
			for name, answers := range got {
				for _, a := range answers {
					if a != want[name] {
						return "concurrent request " + name + " is answered differently with the caching planner than with the plain planner", "differs:" + name
					}
				}
			}
			return "", "same"
		}
		return run, check
	}
}

func init() {
	Specs["C14"] = &Spec{
		ID: "C14",
		Rule: "sequential: every request history of length <=3 over an alphabet of 31 operations (thorough: plus every history of length 4 over the 12 pairwise colliding operations and tick) built to collide in the cache key (pairs differing only in operation type, name, variable type, variable default, variable value, " +
			"fragment body, named fragment type condition, alias, selected operation of a two-operation document, explicit vs injected id, variable present vs omitted, introspection by variable with two values, @skip on a field of another service driven by a variable with both values, one entity looked up twice with different selections, an operation the planner rejects, variable definitions that differ in a default or in the type of a variable used inside a custom scalar literal; one unrelated) plus `tick` (clock jumps past the TTL), for TTL in {0, 1s, 1h}; each history is replayed on a fresh caching gateway and on a plain twin under the virtual clock " +
			"and every answer compared. concurrent: two clients with 1-2 requests each from the pool on one caching gateway (also with a clock jump past the TTL before the second client's request, so that the first one's request straddles the expiry), every schedule with <=1 (thorough 2) preemption at client granularity (RWMutex operations visible), each answer compared with the plain twin's; " +
			"non-trivial = history with a repeated or colliding key",
		Assumptions: []string{"virtual clock owned by vrt (1ms passes between requests)", "subscriptions interleaved with queries are exercised by the C17/C18 harness, not here",
			"answers of the concurrent part must not depend on order: the mutation appears at most once per scenario"},
		Budget: func(tier string) time.Duration {
			if tier == "quick" {
				return 120 * time.Second
			}
			return 10 * time.Minute
		},
		Shards: func(string) int { return 16 },
		Scenarios: func(tier string) []Scenario {
			depth, pb := 3, 1
			if tier == "thorough" {
				depth, pb = 3, 2 // length 4: see below
			}
			cached := newGWHarness(c14World, a.Config{Merger: "extend", Planner: "cached"})
			plain := newGWHarness(c14World, a.DefaultConfig)
			var out []Scenario
			letters := []int{-1}
			for i := range c14Pool {
				letters = append(letters, i)
			}
			var hists [][]int
			var rec func(cur []int)
			rec = func(cur []int) {
				if len(cur) > 0 {
					hists = append(hists, append([]int{}, cur...))
				}
				if len(cur) == depth {
					return
				}
				for _, l := range letters {
					if l < 0 && len(cur) == 0 {
						continue
					}
					rec(append(cur, l))
				}
			}
			rec(nil)
			if tier == "thorough" {
				// length 4 over the whole alphabet would be 3 million scenarios (the list alone exhausts the memory of 17 processes):
				// every history of length <=3 over the whole alphabet, and every history of length 4 over the 12 operations that
				// collide pairwise in the key (plus tick)
				var short [][]int
				for _, h := range hists {
					if len(h) <= 3 {
						short = append(short, h)
					}
				}
				hists = short
				core := map[string]bool{"q-both": true, "m-both": true, "named-A": true, "named-B": true, "var-Int": true, "var-Int-v2": true, "var-default-1": true, "var-default-2": true,
					"frag-name": true, "frag-phone": true, "cross": true, "cross-with-id": true}
				coreLetters := []int{-1}
				for i, o := range c14Pool {
					if core[o.Name] {
						coreLetters = append(coreLetters, i)
					}
				}
				var rec4 func(cur []int)
				rec4 = func(cur []int) {
					if len(cur) == 4 {
						hists = append(hists, append([]int{}, cur...))
						return
					}
					for _, l := range coreLetters {
						if l < 0 && len(cur) == 0 {
							continue
						}
						rec4(append(cur, l))
					}
				}
				rec4(nil)
			}
			// histories are cheap single executions: group 200 of them into one scenario
			for _, ttl := range []time.Duration{0, time.Second, time.Hour} {
				ttl := ttl
				for _, hs := range hists {
					hs := hs
					out = append(out, Scenario{Name: fmt.Sprintf("ttl=%v history: %s", ttl, c14Name(hs)), Atoms: append(c14Atoms(hs), fmt.Sprintf("ttl-%v", ttl)),
						Opt: explore.Options{Bound: 0}, H: c14HistoryHarness(cached, plain, hs, ttl)})
				}
			}
			// concurrent
			want := map[string]string{}
			for _, o := range c14Pool {
				plain.fed.Fakes.Reset()
				_, b := plain.fed.Post(o.body(), "application/json")
				var v interface{}
				json.Unmarshal(b, &v)
				want[o.Name] = canonResp(v)
			}
			idx := func(name string) int {
				for i, o := range c14Pool {
					if o.Name == name {
						return i
					}
				}
				panic(name)
			}
			pairs := [][2][]int{}
			names := []string{"q-both", "m-both", "named-A", "named-B", "frag-name", "frag-phone", "alias-a", "alias-b", "cross", "cross-with-id", "var-Int", "var-Int-v2", "var-Int-omitted"}
			for i, n1 := range names {
				for _, n2 := range names[i:] {
					if n1 == "m-both" && n2 == "m-both" {
						continue
					}
					pairs = append(pairs, [2][]int{{idx(n1)}, {idx(n2)}})
				}
			}
			pairs = append(pairs, [2][]int{{idx("q-both"), idx("cross")}, {idx("cross"), idx("q-both")}}, [2][]int{{idx("frag-name"), idx("frag-name")}, {idx("frag-phone"), idx("frag-name")}})
			// one client's request straddles the expiry: the other client's clock jump and request fall between its planning and its answer
			for _, n1 := range []string{"cross", "frag-phone", "same-node-two-selections"} {
				for _, n2 := range []string{"q-both", "cross", "alias-a"} {
					pairs = append(pairs, [2][]int{{idx(n1)}, {-1, idx(n2)}})
				}
			}
			for _, p := range pairs {
				p := p
				for _, ttl := range []time.Duration{0, time.Hour} {
					out = append(out, Scenario{Name: fmt.Sprintf("ttl=%v concurrent: [%s] || [%s] PB<=%d", ttl, c14Name(p[0]), c14Name(p[1]), pb),
						Atoms: append(append(c14Atoms(p[0]), c14Atoms(p[1])...), "concurrent"),
						Opt:   explore.Options{Bound: pb, Cache: true, GroupDepth: 1, Horizon: 200000}, H: c14ConcHarness(cached, want, p[0], p[1], ttl)})
				}
			}
			return out
		},
	}
}
