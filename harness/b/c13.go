//go:build verif

package b

import (
	"encoding/json"
	"fmt"
	"sort"
	"strings"
	"time"

	"verif/a"
	"verif/explore"

	"github.com/buildbuildio/pebbles/vrt"
)

// C13: planning and responses are deterministic - the outcome of one operation must not
// depend on map iteration order or on how concurrent steps interleave.

func c13Harness(h *gwHarness, c a.Case) explore.Harness {
	body := bodyOf(c.Q, c.Vars)
	return func() (func(), func(*vrt.Sched) (string, string)) {
		h.begin()
		var resp []byte
		done := false
		run := func() {
			h.fed.Fakes.Reset()
			vrt.Explore(true)
			_, resp = h.fed.Post(body, "application/json")
			vrt.Explore(false)
			done = true
		}
		check := func(s *vrt.Sched) (string, string) {
			if v := verdictOfSched(s); v != "" {
				return v, v
			}
			if !done {
				return "handler did not return", ""
			}
			var v interface{}
			if err := json.Unmarshal(resp, &v); err != nil {
				return "response is not JSON", ""
			}
			return "", canonResp(v) + "\n--subrequests--\n" + subreqMultiset(h.fed)
		}
		return run, check
	}
}

// c13ConcHarness: two clients send one operation each to the same gateway at the same time; whatever
// the interleaving, each receives what the operation is answered with when it is sent alone.
func c13ConcHarness(h *gwHarness, qs [2]string) explore.Harness {
	want := map[string]string{}
	pre := vrt.Run(vrt.Config{Horizon: 400000, NoKeys: true}, func() {
		for _, q := range qs {
			h.fed.Fakes.Reset()
			_, b := h.fed.Post(bodyOf(q, nil), "application/json")
			var v interface{}
			json.Unmarshal(b, &v)
			want[q] = canonResp(v)
		}
	})
	aloneVerdict := verdictOfSched(pre)
	return func() (func(), func(*vrt.Sched) (string, string)) {
		h.begin()
		got := [2]string{}
		finished := 0
		run := func() {
			h.fed.Fakes.Reset()
			done := vrt.MakeChan[int](2)
			client := func(i int) func() {
				return func() {
					_, b := h.fed.Post(bodyOf(qs[i], nil), "application/json")
					var v interface{}
					json.Unmarshal(b, &v)
					vrt.Touch("results")
					got[i] = canonResp(v)
					vrt.Send(done, 1)
				}
			}
			vrt.Explore(true)
			vrt.GoNamed("client1", client(0))
			vrt.GoNamed("client2", client(1))
			vrt.Recv(done)
			vrt.Recv(done)
			vrt.Explore(false)
			finished = 2
		}
		check := func(s *vrt.Sched) (string, string) {
			if aloneVerdict != "" {
				return "an operation sent alone: " + aloneVerdict, ""
			}
			if v := verdictOfSched(s); v != "" {
				return v, v
			}
			if finished != 2 {
				return "clients did not finish", ""
			}
			for i, q := range qs {
				if got[i] != want[q] {
					return "an operation sent while another request is in flight is answered differently from the same operation sent alone", got[i]
				}
			}
			return "", "same"
		}
		return run, check
	}
}

func c13Post(r *explore.Result) string {
	if len(r.Outcomes) <= 1 {
		return ""
	}
	// classify what varies
	var datas, reqs = map[string]bool{}, map[string]bool{}
	for o := range r.Outcomes {
		p := strings.SplitN(o, "\n--subrequests--\n", 2)
		datas[p[0]] = true
		if len(p) > 1 {
			reqs[p[1]] = true
		}
	}
	var what []string
	if len(datas) > 1 {
		what = append(what, "response")
	}
	if len(reqs) > 1 {
		what = append(what, "set of sub-requests")
	}
	sort.Strings(what)
	return "outcome depends on map iteration order / schedule: " + strings.Join(what, " and ") + " vary"
}

type c13Case struct {
	world string
	c     a.Case
	// faults: service index -> fault kind, applied to every call that service receives
	// (a function of the service only, so the plan itself does not depend on call order)
	faults map[int]string
	batchM int
}

func (cc c13Case) key() string {
	fb, _ := json.Marshal(cc.faults)
	return fmt.Sprintf("%s|m%d|%s", cc.world, cc.batchM, fb)
}

func (cc c13Case) harness() *gwHarness {
	cfg := a.DefaultConfig
	cfg.BatchM = cc.batchM
	h := newGWHarness(cc.world, cfg)
	if len(cc.faults) > 0 {
		plan := cc.faults
		h.setup = func(h *gwHarness) {
			h.fed.Fakes.FaultFor = func(call, svc, n int) *a.Fault {
				if k, ok := plan[svc]; ok {
					return &a.Fault{Kind: k}
				}
				return nil
			}
		}
		h.setup(h)
	}
	return h
}

func c13Corpus(tier string) []c13Case {
	var out []c13Case
	add := func(world string, k int, dec int) {
		h := newGWHarness(world, a.DefaultConfig)
		for _, c := range a.GenOps(h.fed.Merged, h.fed.W, k) {
			out = append(out, c13Case{world: world, c: c})
		}
		if dec > 0 {
			for _, c := range a.GenOps(h.fed.Merged, h.fed.W, dec) {
				for _, d := range a.Decorate(h.fed.Merged, c.Q) {
					if strings.HasPrefix(d.Dec, "argVar@") || strings.HasPrefix(d.Dec, "varTwice@") || strings.HasPrefix(d.Dec, "fragT@") || strings.HasPrefix(d.Dec, "typename@") || strings.HasPrefix(d.Dec, "named@") {
						out = append(out, c13Case{world: world, c: d})
					}
				}
			}
		}
	}
	// operations with several variables in one step (the synthesised variable header has >1 entry)
	for _, c := range []a.Case{
		{Q: "query ($a: Int, $b: Int) { echo(x: $a) b: echo(x: $b) }", Vars: map[string]interface{}{"a": 1, "b": 2}},
		{Q: "query ($v0: Int) { n2 { owner { calc(x: $v0) } } }", Vars: map[string]interface{}{"v0": 3}},
		{Q: "query ($v0: Int, $z: Int) { n1s { phone calc(x: $v0) } n2 { owner { calc(x: $z) } } }", Vars: map[string]interface{}{"v0": 3, "z": 4}},
		{Q: "mutation ($n: String, $x: Int) { mkN1(name: $n) { phone calc(x: $x) } }", Vars: map[string]interface{}{"n": "q", "x": 5}},
	} {
		if tier == "quick" && strings.Contains(c.Q, "$z") {
			continue
		}
		out = append(out, c13Case{world: "W0", c: c})
	}
	// several root node() lookups / fragments in one operation, one of them selecting nothing but id
	// (every service that knows the type could answer it)
	for _, q := range []string{
		`{ full: node(id: "N1_1") { ... on N1 { name phone } } seen: node(id: "N1_2") { ... on N1 { id } } }`,
		`{ node(id: "N1_1") { ... on N1 { name phone } ... on N2 { id } } }`,
		`{ a: node(id: "N1_1") { ... on N1 { id } } b: node(id: "N2_1") { ... on N2 { title } } }`,
	} {
		out = append(out, c13Case{world: "W0", c: a.Case{Q: q}})
	}
	// concurrently failing steps: the set of errors and the set of sub-requests must not depend on which one is seen first
	for _, fc := range []c13Case{
		{world: "W0+mutation-second-service", c: a.Case{Q: "mutation { incr(by: 1) bump(by: 1) }"}, faults: map[int]string{0: "transport", 1: "status500"}},
		{world: "W0+mutation-second-service", c: a.Case{Q: "mutation { incr(by: 1) bump(by: 1) }"}, faults: map[int]string{1: "transport"}},
		{world: "W0+mutation-second-service", c: a.Case{Q: "mutation { incr(by: 1) bump(by: 1) }"}, faults: map[int]string{0: "errors1"}},
		{world: "W0", c: a.Case{Q: "{ echo n2 { title } }"}, faults: map[int]string{0: "transport", 1: "errors1"}},
		{world: "W0", c: a.Case{Q: "{ n1s { phone } }"}, faults: map[int]string{1: "errors-per-request"}, batchM: 2},
		{world: "W0+third-service", c: a.Case{Q: "{ n1s { phone extra } }"}, faults: map[int]string{1: "errors-per-request", 2: "transport"}, batchM: 2},
		// a named operation whose root step is answered without data and without errors (the message must not carry anything request-specific)
		{world: "W0", c: a.Case{Q: "query Named { echo n2 { title } }"}, faults: map[int]string{0: "datanull"}},
		{world: "W0", c: a.Case{Q: "query Named { echo n2 { title } }"}, faults: map[int]string{1: "nodata"}},
		// a whole call failing below the root whose batch is fed by two root steps of different services (the order of its requests is open)
		{world: "W0+third-service", c: a.Case{Q: "{ n1s { extra } n2 { owner { extra } } }"}, faults: map[int]string{2: "transport"}},
		{world: "W0+third-service", c: a.Case{Q: "{ n1s { extra } n2 { owner { extra } } }"}, faults: map[int]string{2: "status500"}},
	} {
		if tier == "quick" && fc.world == "W0+third-service" && (len(fc.faults) > 1 || fc.faults[2] == "status500") {
			continue // three concurrently answering services, two of them failing: thorough only
		}
		out = append(out, fc)
	}
	// lists under __schema whose entries do not carry a plain `name` (their order must not come from map iteration)
	for _, q := range []string{"{ __schema { types { kind } } }", "{ __schema { types { n: name } directives { locations } } }"} {
		out = append(out, c13Case{world: "Wmin", c: a.Case{Q: q}})
	}
	// abstract fields whose possible types get different helper sets (one fragment selects id itself)
	for _, q := range []string{"{ us { ... on N1 { id phone } ... on N4 { label } } }", "{ us { ... on N1 { phone } ... on N4 { id label } } }",
		"{ us { ... on N4 { label } } }", "{ us { __typename ... on N1 { id } ... on N4 { label } } }"} {
		out = append(out, c13Case{world: "W0+union-list", c: a.Case{Q: q}})
	}
	for _, q := range []string{"{ named { ... on N1 { id name } ... on N3 { name size } } }", "{ named { name ... on N3 { id } } }"} {
		out = append(out, c13Case{world: "W0+interface-entities", c: a.Case{Q: q}})
	}
	if tier == "quick" {
		add("W0", 2, 2)
		add("W0+third-service", 2, 0)
		add("W0+union-list", 2, 0)
		add("W0+interface-entities", 2, 0)
		add("W0+interface-value", 2, 0)
		add("Wmin", 3, 0)
		return out
	}
	add("W0", 3, 2)
	for _, w := range []string{"W0+third-service", "W0+union-list", "W0+interface-entities", "W0+interface-value", "W0+entity-node-typed-field", "W0+union-single", "W0+shared-value-type",
		"W0+mutation-second-service", "W0+entity-list-self", "W0+n2-backref-list", "W0+service-without-node", "W0+root-input", "W0+ts-interface-chain"} {
		add(w, 2, 0)
	}
	add("Wmin", 4, 2)
	return out
}

func init() {
	Specs["C13"] = &Spec{
		ID: "C13",
		Rule: "scenario = one operation, fault-free or with a fault plan per service (transport error, 500, GraphQL errors, one error per sub-request) and a small downstream batch size (all operations with <=2 fields (thorough 3) on W0 plus variable/fragment decorations, all <=2-field operations on 5 (thorough 13) worlds with several services per level, abstract types, shared types); " +
			"explored: every execution of the real Gateway.Handler with at most 1 (thorough 2) deviation, a deviation being a preemption or a non-default iteration order at one of the 43 rewritten `range`-over-map sites " +
			"(any key first, or reversed); outcome = (data, set of errors, per-service multiset of (query, variables)); oracle: exactly one outcome per operation, no deadlock/fatal; non-trivial = >1 execution",
		Assumptions: []string{"map iteration inside dependencies (gqlparser, lo) is not enumerated", "deviation-bounded: combinations of more than the bound of order changes / preemptions are not covered"},
		Budget: func(tier string) time.Duration {
			if tier == "quick" {
				return 150 * time.Second
			}
			return 14 * time.Minute
		},
		Shards: func(string) int { return 16 },
		Scenarios: func(tier string) []Scenario {
			bound := 1
			if tier == "thorough" {
				bound = 2
			}
			var out []Scenario
			hs := map[string]*gwHarness{}
			for _, cc := range c13Corpus(tier) {
				h := hs[cc.key()]
				if h == nil {
					h = cc.harness()
					hs[cc.key()] = h
				}
				vb, _ := json.Marshal(cc.c.Vars)
				name := fmt.Sprintf("%s :: %s %s", cc.world, cc.c.Q, vb)
				if len(cc.faults) > 0 {
					fb, _ := json.Marshal(cc.faults)
					name += fmt.Sprintf(" faults(service->kind)=%s m=%d", fb, cc.batchM)
				}
				out = append(out, Scenario{
					Name:  name,
					Atoms: h.fed.CaseAtoms(cc.c),
					Opt:   explore.Options{Bound: bound, MapBranch: true, Horizon: 200000, Cache: true, OutcomeIsProperty: true},
					H:     c13Harness(h, cc.c),
					Fresh: func() explore.Harness { return c13Harness(h.freshCopy(), cc.c) },
					Post:  c13Post,
				})
			}
			// one multipart operation whose upload variable is consumed by two services at the same time
			{
				world := "W0+upload-roots+upload-second-service"
				hu := newGWHarness(world, a.DefaultConfig)
				n := 0
				layouts := a.UploadLayouts("quick", true)
				// the input object with a list of files first
				sort.SliceStable(layouts, func(i, j int) bool {
					in := func(l a.UpLayout) bool { return len(l.Ops) == 1 && strings.Contains(l.Ops[0].Q, "uploadIn1(") }
					return in(layouts[i]) && !in(layouts[j])
				})
				for _, l := range layouts {
					if len(l.Ops) != 1 || len(l.Files) == 0 {
						continue
					}
					q := l.Ops[0].Q
					if !(strings.Contains(q, "upload1(f: $f)") && strings.Contains(q, "upload(f: $f)")) && !(strings.Contains(q, "uploadIn1(") && strings.Contains(q, "uploadIn(")) {
						continue
					}
					n++
					if tier == "quick" && n > 3 {
						break
					}
					l := l
					body, ct := l.Body()
					mk := func(h *gwHarness) explore.Harness {
						return func() (func(), func(*vrt.Sched) (string, string)) {
							h.begin()
							var resp []byte
							done := false
							run := func() {
								h.fed.Fakes.Reset()
								vrt.Explore(true)
								_, resp = h.fed.Post([]byte(body), ct)
								vrt.Explore(false)
								done = true
							}
							check := func(s *vrt.Sched) (string, string) {
								if v := verdictOfSched(s); v != "" {
									return v, v
								}
								if !done {
									return "handler did not return", ""
								}
								var v interface{}
								if err := json.Unmarshal(resp, &v); err != nil {
									return "response is not JSON", ""
								}
								return "", canonResp(v) + "\n--subrequests--\n" + subreqMultiset(h.fed) + "\n" + filesReceived(h.fed)
							}
							return run, check
						}
					}
					out = append(out, Scenario{
						Name:  fmt.Sprintf("%s :: multipart %s", world, l.Desc),
						Atoms: []string{"multipart", "variable-consumed-by-two-services"},
						// step-grained like the schedule part of C19: choices between the goroutine subtrees of the two services' steps
						// (goroutine ids: handler 0, operation 0.k, step of one service 0.k.j)
						Opt:   explore.Options{Bound: bound, Horizon: 200000, Cache: true, GroupDepth: 2},
						H:     mk(hu),
						Fresh: func() explore.Harness { return mk(hu.freshCopy()) },
						Post:  c13Post,
					})
				}
			}
			// overlapping client requests: the gateway's own (default) queryer factory and a custom one;
			// the context of a client request ends when its handler returns
			pairs := [][2]string{{"{ n1s { name phone } }", "{ n1s { name phone } }"}, {"{ n1s { name phone } }", "{ echo(x: 3) }"}, {"{ n2 { owner { name n2s { title } } } }", "{ n1s { name phone } }"}}
			if tier == "thorough" {
				pairs = append(pairs, [2]string{"{ n2 { owner { name n2s { title } } } }", "{ n2 { owner { name n2s { title } } } }"}, [2]string{"mutation { incr(by: 1) }", "{ n1s { name phone } }"})
			}
			for _, cfg := range []a.Config{{Merger: "extend", Planner: "plain", DefaultFactory: true}, a.DefaultConfig} {
				cfg := cfg
				hc := newGWHarness("W0", cfg)
				for _, p := range pairs {
					p := p
					out = append(out, Scenario{
						Name:  fmt.Sprintf("W0 :: two clients at the same time: %s || %s PB<=%d %s", p[0], p[1], bound, cfg.String()),
						Atoms: append([]string{"two-clients"}, cfg.Atoms()...),
						Opt:   explore.Options{Bound: bound, Horizon: 200000, Cache: true, GroupDepth: 1},
						H:     c13ConcHarness(hc, p),
						Fresh: func() explore.Harness { return c13ConcHarness(hc.freshCopy(), p) },
					})
				}
			}
			return out
		},
	}
}

// filesReceived renders which service received which file parts (name and length), sorted.
func filesReceived(f *a.Fed) string {
	var l []string
	for _, r := range f.Fakes.Reqs {
		for k, fp := range r.Files {
			l = append(l, fmt.Sprintf("s%d|%s|%s|%d", r.Svc, k, fp.Name, len(fp.Content)))
		}
	}
	sort.Strings(l)
	return strings.Join(l, ";")
}
