//go:build verif

package b

import (
	"bytes"
	"context"
	"encoding/json"
	"errors"
	"fmt"
	"io"
	"mime"
	"mime/multipart"
	"net/http"
	"sort"
	"strings"
	"time"

	"verif/explore"

	"github.com/buildbuildio/pebbles/queryer"
	"github.com/buildbuildio/pebbles/requests"
	"github.com/buildbuildio/pebbles/vrt"
)

// C11: the real MultiOpQueryer.Query over an in-memory transport that yields to the
// scheduler before answering, so that the completion order of concurrent chunk requests
// is an explorer choice.

type c11rt struct {
	calls    [][]string // request identities per HTTP call, in arrival order
	failWith string     // "", "transport", "status", "badjson"
	failReq  string     // the call containing this request identity fails
	// healthy answers carry "errors": []
	emptyErrors bool
	// every executed request gets a serial number of its own (a service is not idempotent)
	serial int
}

func (t *c11rt) RoundTrip(r *http.Request) (*http.Response, error) {
	body, _ := io.ReadAll(r.Body)
	var reqs []struct {
		Query string `json:"query"`
	}
	if mt, params, _ := mime.ParseMediaType(r.Header.Get("Content-Type")); mt == "multipart/form-data" {
		// a request with an upload travels alone, as a multipart form, and is answered with one object
		form, err := multipart.NewReader(bytes.NewReader(body), params["boundary"]).ReadForm(1 << 20)
		if err != nil || len(form.Value["operations"]) != 1 {
			return nil, fmt.Errorf("harness: unexpected multipart body %s", body)
		}
		var one struct {
			Query string `json:"query"`
		}
		if err := json.Unmarshal([]byte(form.Value["operations"][0]), &one); err != nil {
			return nil, fmt.Errorf("harness: unexpected operations field %s", form.Value["operations"][0])
		}
		got := ""
		for _, fhs := range form.File {
			for _, fh := range fhs {
				f, _ := fh.Open()
				b, _ := io.ReadAll(f)
				f.Close()
				got += string(b)
			}
		}
		form.RemoveAll()
		vrt.Touch("transport")
		t.calls = append(t.calls, []string{one.Query})
		t.serial++
		b, _ := json.Marshal(map[string]interface{}{"data": map[string]interface{}{"echo": one.Query, "serial": t.serial, "file": got}})
		return &http.Response{StatusCode: 200, Body: io.NopCloser(bytes.NewReader(b)), Header: http.Header{}}, nil
	}
	if err := json.Unmarshal(body, &reqs); err != nil {
		return nil, fmt.Errorf("harness: unexpected body %s", body)
	}
	ids := make([]string, len(reqs))
	fail := false
	for i, q := range reqs {
		ids[i] = q.Query
		if q.Query == t.failReq {
			fail = true
		}
	}
	vrt.Touch("transport") // the call is in flight; arrival order is an explorer choice
	t.calls = append(t.calls, ids)
	if fail {
		switch t.failWith {
		case "transport":
			return nil, errors.New("injected transport error")
		case "transport-canceled":
			// what a transport reports when a context it watches ends (wraps context.Canceled)
			return nil, fmt.Errorf("Post \"http://svc\": %w", context.Canceled)
		case "transport-eof":
			// the connection broke after the service received the call
			return nil, fmt.Errorf("read tcp: %w", io.EOF)
		case "graphql-errors", "errors-empty-datanull":
			// the element answering the marked request failed: errors and no data / an errors key carrying nothing and no data
			out := make([]map[string]interface{}, len(reqs))
			for i, q := range reqs {
				out[i] = map[string]interface{}{"data": map[string]interface{}{"echo": q.Query}}
				if q.Query == t.failReq {
					out[i] = map[string]interface{}{"data": nil, "errors": []interface{}{}}
					if t.failWith == "graphql-errors" {
						out[i]["errors"] = []interface{}{map[string]interface{}{"message": "boom"}}
					}
				}
			}
			b, _ := json.Marshal(out)
			return &http.Response{StatusCode: 200, Body: io.NopCloser(bytes.NewReader(b)), Header: http.Header{}}, nil
		case "short":
			// a well-formed answer without any error entry that is one element short
			out := make([]map[string]interface{}, 0, len(reqs))
			for _, q := range reqs[:len(reqs)-1] {
				t.serial++
				out = append(out, map[string]interface{}{"data": map[string]interface{}{"echo": q.Query, "serial": t.serial}})
			}
			b, _ := json.Marshal(out)
			return &http.Response{StatusCode: 200, Body: io.NopCloser(bytes.NewReader(b)), Header: http.Header{}}, nil
		case "trailer", "breaks-off-after-array":
			// a well-formed answer of the right length - and then something else: more text behind the array / the transfer breaks off with an error
			out := make([]map[string]interface{}, 0, len(reqs))
			for _, q := range reqs {
				t.serial++
				out = append(out, map[string]interface{}{"data": map[string]interface{}{"echo": q.Query, "serial": t.serial}})
			}
			b, _ := json.Marshal(out)
			var rd io.Reader = bytes.NewReader(append(b, []byte("\n<html>502 Bad Gateway</html>")...))
			if t.failWith == "breaks-off-after-array" {
				rd = io.MultiReader(bytes.NewReader(b), errReader{})
			}
			return &http.Response{StatusCode: 200, Body: io.NopCloser(rd), Header: http.Header{}}, nil
		case "status":
			return &http.Response{StatusCode: 500, Body: io.NopCloser(strings.NewReader("boom")), Header: http.Header{}}, nil
		case "status-validbody":
			out := make([]map[string]interface{}, len(reqs))
			for i, q := range reqs {
				out[i] = map[string]interface{}{"data": map[string]interface{}{"echo": q.Query}}
			}
			b, _ := json.Marshal(out)
			return &http.Response{StatusCode: 502, Body: io.NopCloser(bytes.NewReader(b)), Header: http.Header{}}, nil
		case "badjson":
			return &http.Response{StatusCode: 200, Body: io.NopCloser(strings.NewReader("{not json")), Header: http.Header{}}, nil
		}
	}
	out := make([]map[string]interface{}, len(reqs))
	for i, q := range reqs {
		t.serial++
		out[i] = map[string]interface{}{"data": map[string]interface{}{"echo": q.Query, "serial": t.serial}}
		if t.emptyErrors {
			out[i]["errors"] = []interface{}{} // healthy answers that spell out an empty errors list
		}
	}
	b, _ := json.Marshal(out)
	return &http.Response{StatusCode: 200, Body: io.NopCloser(bytes.NewReader(b)), Header: http.Header{}}, nil
}

type errReader struct{}

func (errReader) Read([]byte) (int, error) {
	return 0, errors.New("read tcp: connection reset by peer")
}

// c11File is an uploaded file held in memory
type c11File struct{ *bytes.Reader }

func (c11File) Close() error { return nil }

// c11UploadAt reads the position out of the pattern "upload@k" (-1: no upload)
func c11UploadAt(pattern string) int {
	k := -1
	fmt.Sscanf(pattern, "upload@%d", &k)
	return k
}

// c11ID names request i: "distinct" q0..q(n-1); "equal" all q0; "period" q(i mod m) (the chunks are byte-equal)
func c11ID(pattern string, i, m int) string {
	switch pattern {
	case "equal":
		return "q0"
	case "period":
		return fmt.Sprintf("q%d", i%m)
	}
	return fmt.Sprintf("q%d", i)
}

func c11Harness(n, m int, failWith string, failIdx int, pattern ...string) explore.Harness {
	pat := "distinct"
	if len(pattern) > 0 {
		pat = pattern[0]
	}
	return func() (func(), func(*vrt.Sched) (string, string)) {
		rt := &c11rt{failWith: failWith}
		if failWith == "ok-empty-errors" {
			rt.failWith, rt.emptyErrors = "", true
		}
		if rt.failWith != "" {
			rt.failReq = fmt.Sprintf("q%d", failIdx)
		}
		var res []map[string]interface{}
		var err error
		returned := false
		body := func() {
			q := queryer.NewMultiOpQueryer("http://svc", m).WithHTTPClient(&http.Client{Transport: rt})
			in := make([]*requests.Request, n)
			for i := range in {
				in[i] = &requests.Request{Query: c11ID(pat, i, m)}
				if i == c11UploadAt(pat) {
					in[i].Variables = map[string]interface{}{"f": &requests.Upload{File: c11File{bytes.NewReader([]byte("bytes of " + c11ID(pat, i, m)))}, FileName: "f.txt"}}
				}
			}
			res, err = q.Query(in)
			returned = true
		}
		check := func(s *vrt.Sched) (string, string) {
			v := c11Verdict(n, m, rt, res, err, returned, s, pat)
			order := ""
			for _, c := range rt.calls {
				order += "[" + strings.Join(c, " ") + "]"
			}
			return v, v + "|" + order
		}
		return body, check
	}
}

func c11Verdict(n, m int, rt *c11rt, res []map[string]interface{}, err error, returned bool, s *vrt.Sched, pat string) string {
	if s.Fatal != "" {
		return "FATAL " + s.Fatal + " in " + roleOf(s.FatalG)
	}
	if s.RootPanic != "" {
		return "PANIC in caller: " + s.RootPanic
	}
	if !returned {
		return "DEADLOCK Query never returned; stuck=" + stuckRoles(s.Stuck)
	}
	if s.Deadlock {
		return "LEAK goroutines left behind: " + stuckRoles(s.Stuck)
	}
	seen := map[string]int{}
	for _, c := range rt.calls {
		if len(c) > m {
			return fmt.Sprintf("HTTP call with %d requests exceeds max batch size", len(c))
		}
		if len(c) == 0 {
			return "empty HTTP call"
		}
		for _, id := range c {
			seen[id]++
		}
	}
	mult := map[string]int{}
	for i := 0; i < n; i++ {
		mult[c11ID(pat, i, m)]++
	}
	for id, want := range mult {
		k := seen[id]
		if k > want {
			return "request sent in more than one HTTP call"
		}
		if k < want && rt.failWith == "" {
			return "request never sent"
		}
	}
	if rt.failWith != "" {
		if err == nil {
			return "failing call not reported as error"
		}
		if res != nil {
			return "partial results returned together with an error"
		}
		return ""
	}
	if err != nil {
		return "unexpected error: " + err.Error()
	}
	if len(res) != n {
		return fmt.Sprintf("returned %d results for %d requests", len(res), n)
	}
	serials := map[interface{}]bool{}
	for i, r := range res {
		if r == nil || r["echo"] != c11ID(pat, i, m) {
			return "result at position i does not answer request i"
		}
		if i == c11UploadAt(pat) && r["file"] != "bytes of "+c11ID(pat, i, m) {
			return "the request with the upload was not answered with its file"
		}
		if serials[r["serial"]] {
			return "result at position i does not answer request i (two results carry the answer to one executed request)"
		}
		serials[r["serial"]] = true
	}
	return ""
}

func init() {
	Specs["C11"] = &Spec{
		ID: "C11",
		Rule: "scenario = (N requests, max batch size m, request identities {all distinct, all equal, repeating with period m (byte-equal chunks)}; the service numbers every request it executes; failure kind in {none, none with answers that spell out empty errors lists, transport error, transport error wrapping EOF (connection broke after the call arrived), transport error wrapping context.Canceled, status 500, 502 with a well-formed body, non-JSON body, GraphQL errors in the element, empty errors list with null data, a well-formed answer one element short, a well-formed answer followed by more text, a well-formed answer after which the transfer breaks off}; one request may carry an upload (every position, N 2..5, m 2..3), failing chunk); all completion orders of the concurrent chunk requests of the real MultiOpQueryer.Query are enumerated " +
			"(all interleavings, state-cached, unbounded); outcome = verdict plus arrival order of the HTTP calls; non-trivial = >1 execution",
		Assumptions: []string{
			"the in-memory RoundTripper stands for the service; one scheduling point while the call is in flight",
			"net/http client code below RoundTrip starts no goroutine for a request without deadline (checked by reading)",
			"vrewrite rules and vrt semantics (self-tests)",
		},
		Budget: func(tier string) time.Duration {
			if tier == "quick" {
				return 150 * time.Second
			}
			return 10 * time.Minute
		},
		Shards: func(string) int { return 16 },
		Scenarios: func(tier string) []Scenario {
			maxN, maxM := 7, 4
			if tier == "thorough" {
				maxN, maxM = 9, 5
			}
			var out []Scenario
			for m := 1; m <= maxM; m++ {
				for n := 0; n <= maxN; n++ {
					chunks := 1
					if n > m {
						chunks = (n + m - 1) / m
					}
					if (chunks > 4 && tier == "quick") || chunks > 6 {
						continue // more concurrent calls: thorough only (capped by the deadline there)
					}
					out = append(out, Scenario{Name: fmt.Sprintf("N=%d m=%d no-fault", n, m), Atoms: []string{"nofault"},
						Opt: explore.Options{Bound: -1, Cache: true, StartBranch: true}, H: c11Harness(n, m, "", 0)})
					if n == 0 {
						continue
					}
					out = append(out, Scenario{Name: fmt.Sprintf("N=%d m=%d no-fault, answers with empty errors lists", n, m), Atoms: []string{"nofault", "ok-empty-errors"},
						Opt: explore.Options{Bound: -1, Cache: true, StartBranch: true}, H: c11Harness(n, m, "ok-empty-errors", 0)})
					if n > 1 {
						for _, pat := range []string{"equal", "period"} {
							out = append(out, Scenario{Name: fmt.Sprintf("N=%d m=%d no-fault, %s requests", n, m, pat), Atoms: []string{"nofault", "requests-" + pat},
								Opt: explore.Options{Bound: -1, Cache: true, StartBranch: true}, H: c11Harness(n, m, "", 0, pat)})
						}
					}
					if n >= 2 && n <= 5 && m >= 2 && m <= 3 {
						// one request carries an upload (it travels alone, ahead of the batch it was cut out of), at every position
						for k := 0; k < n; k++ {
							out = append(out, Scenario{Name: fmt.Sprintf("N=%d m=%d no-fault, upload at %d", n, m, k), Atoms: []string{"nofault", "upload"},
								Opt: explore.Options{Bound: -1, Cache: true, StartBranch: true}, H: c11Harness(n, m, "", 0, fmt.Sprintf("upload@%d", k))})
						}
					}
					kinds := []string{"transport", "transport-eof", "transport-canceled"}
					if n <= 4 || tier == "thorough" {
						kinds = []string{"transport", "transport-eof", "transport-canceled", "status", "badjson", "status-validbody", "graphql-errors", "errors-empty-datanull", "short", "trailer", "breaks-off-after-array"}
					}
					for _, k := range kinds {
						for c := 0; c < chunks; c++ {
							out = append(out, Scenario{Name: fmt.Sprintf("N=%d m=%d %s-fault in chunk %d", n, m, k, c), Atoms: []string{"fault", k},
								Opt: explore.Options{Bound: -1, Cache: true, StartBranch: true}, H: c11Harness(n, m, k, c*m)})
						}
					}
				}
			}
			// fault-free scenarios first (cheap, and every (N, m) shape is seen before the budget can run out)
			sort.SliceStable(out, func(i, j int) bool {
				return strings.Contains(out[i].Name, "no-fault") && !strings.Contains(out[j].Name, "no-fault")
			})
			return out
		},
	}
}
