//go:build verif

package b

import (
	"encoding/json"
	"fmt"
	"reflect"
	"strings"
	"time"

	"verif/a"
	"verif/explore"
	"verif/gqlref"

	"github.com/buildbuildio/pebbles/vrt"
	"github.com/vektah/gqlparser/v2"
	"github.com/vektah/gqlparser/v2/ast"
)

// C17: subscription events are delivered once, in order, fully stitched.

type c17Scenario struct {
	world   string
	subs    []string // subscription operations, ids "1", "2", ...
	vars    []map[string]interface{}
	up      [][]upAction // upstream script per subscription
	bound   int
	planner string
	conns   int // client connections, one after the other, each running the whole script (0 = 1)
	// slow: the client's receive buffer holds 16 bytes, the client reads nothing for 6.5 s once the subscriptions
	// are established, then reads on; it terminates at 10 s; the heartbeat ticker may fire once
	slow bool
}

func (sc c17Scenario) name() string {
	var us []string
	for _, u := range sc.up {
		var x []string
		for _, a := range u {
			x = append(x, string(a))
		}
		us = append(us, "["+strings.Join(x, ",")+"]")
	}
	vs := ""
	if len(sc.vars) > 0 {
		b, _ := json.Marshal(sc.vars)
		vs = " vars=" + string(b)
	}
	cs := ""
	if sc.conns > 1 {
		cs = fmt.Sprintf(" x%d connections in sequence", sc.conns)
	}
	if sc.slow {
		cs += " slow-reader heartbeats<=1"
	}
	return fmt.Sprintf("subs=%s%s upstream=%s%s PB<=%d planner=%s", strings.Join(sc.subs, " || "), vs, strings.Join(us, ""), cs, sc.bound, sc.planner)
}

type c17Obs struct {
	env             *wsEnv
	srvs            []*vrt.Conn // server end of each client connection
	handlerReturned int
}

func c17Harness(h *gwHarness, sc c17Scenario) explore.Harness {
	return func() (func(), func(*vrt.Sched) (string, string)) {
		h.begin()
		o := &c17Obs{}
		run := func() {
			h.fed.Fakes.Reset()
			if sc.planner == "cached" {
				h.fed.SetPlanner(newCached())
			}
			conns := sc.conns
			if conns < 1 {
				conns = 1
			}
			var scripts [][]upAction
			for c := 0; c < conns; c++ {
				scripts = append(scripts, sc.up...)
			}
			env := &wsEnv{fed: h.fed, scripts: scripts, startedC: vrt.MakeChan[int](8)}
			o.env = env
			env.install()
			guard := h.guard
			for c := 0; c < conns; c++ {
				connID := guard.open()
				cli, srv := vrt.Pipe(fmt.Sprintf("client%d", c))
				o.srvs = append(o.srvs, srv)
				hdone := vrt.MakeChan[int](1)
				vrt.GoNamed("handler", func() {
					h.fed.GW.Handler(&hijackWriter{conn: srv}, upgradeRequest(connID))
					o.handlerReturned++
					vrt.Send(hdone, 1)
				})
				writeClientFrame(cli, clientMsg("connection_init", "", nil))
				first := len(env.ups)
				for i, q := range sc.subs {
					pl := map[string]interface{}{"query": q}
					if i < len(sc.vars) && sc.vars[i] != nil {
						pl["variables"] = sc.vars[i]
					}
					writeClientFrame(cli, clientMsg("start", fmt.Sprint(i+1), pl))
					vrt.Recv(env.startedC)
				}
				if sc.slow {
					slowReader(cli)
				}
				vrt.Explore(true)
				for _, u := range env.ups[first:] {
					vrt.Send(u.goC, 1)
				}
				vrt.GoDaemon("client-writer", func() {
					if sc.slow {
						vrt.Sleep(10 * time.Second) // the reader has caught up long before
					}
					for i, u := range sc.up {
						for _, x := range u {
							if x == "quiet11s" && first+i < len(env.ups) {
								vrt.Recv(env.ups[first+i].doneC) // the client stays while the service is quiet
								break
							}
						}
					}
					vrt.WaitIdle() // every emitted event has been processed (or is stuck for good)
					writeClientFrame(cli, clientMsg("connection_terminate", "", nil))
				})
				vrt.Recv(hdone)
				vrt.Explore(false)
				guard.close(connID) // the request's context ends with the handler
			}
		}
		check := func(s *vrt.Sched) (string, string) {
			v := c17Verdict(s, h, sc, o)
			return v, v
		}
		return run, check
	}
}

func c17Verdict(s *vrt.Sched, h *gwHarness, sc c17Scenario, o *c17Obs) string {
	if s.Fatal != "" {
		return "FATAL " + s.Fatal
	}
	if s.RootPanic != "" {
		return "PANIC in driver: " + s.RootPanic
	}
	conns := sc.conns
	if conns < 1 {
		conns = 1
	}
	if o.handlerReturned < conns {
		return "DEADLOCK handler never returned; stuck=" + stuckOps(s.Stuck)
	}
	if s.Deadlock {
		return "LEAK goroutines left behind: " + stuckOps(s.Stuck)
	}
	for c, srv := range o.srvs {
		if v := c17ConnVerdict(h, sc, srv, c); v != "" {
			if c > 0 {
				return fmt.Sprintf("connection %d after an earlier one ended: %s", c+1, v)
			}
			return v
		}
	}
	return ""
}

// c17ConnVerdict judges what the c-th client connection received.
func c17ConnVerdict(h *gwHarness, sc c17Scenario, srv *vrt.Conn, c int) string {
	var received []byte
	for _, w := range srv.Written {
		received = append(received, w...)
	}
	frames, problem := parseServerStream(received)
	if problem != "" {
		return "client received a malformed frame stream: " + problem
	}
	msgs, p := decodeMessages(frames)
	if p != "" {
		return "client received a malformed message: " + p
	}
	got := map[string][]wsMsg{}
	for _, m := range msgs {
		if m.Type == "data" || m.Type == "error" {
			got[m.ID] = append(got[m.ID], m)
		}
	}
	for id := range got {
		var k int
		fmt.Sscan(id, &k)
		if k < 1 || k > len(sc.subs) {
			return "message under a subscription id that was never started"
		}
	}
	for i, q := range sc.subs {
		id := fmt.Sprint(i + 1)
		doc, errs := gqlparser.LoadQuery(h.fed.Merged, q)
		if errs != nil {
			return "HARNESS: invalid subscription " + errs.Error()
		}
		var want []map[string]interface{}
		n := 0
		var script []upAction
		if i < len(sc.up) {
			script = sc.up[i]
		}
		var cvars map[string]interface{}
		if i < len(sc.vars) {
			cvars = sc.vars[i]
		}
		epoch := 0
		for _, act := range script {
			switch act {
			case "nullevent":
				n++
				// every root field of the event is null
				nd := map[string]interface{}{}
				for _, sel := range doc.Operations[0].SelectionSet {
					if f, ok := sel.(*ast.Field); ok {
						k := f.Alias
						if k == "" {
							k = f.Name
						}
						nd[k] = nil
					}
				}
				want = append(want, map[string]interface{}{"data": nd})
			case "event", "dataerrors", "event-changed", "event-fragmented":
				if act == "event-changed" {
					// the same entity again after the data of the services has changed
					epoch++
					if n == 0 {
						n = 1
					}
				} else {
					n++
				}
				cnt := a.Counters{"__event": (c*len(sc.subs)+i)*10 + n}
				if epoch > 0 {
					cnt["__epoch"] = epoch
				}
				data, err := gqlref.Execute(h.fed.Merged, h.fed.W.Monolith(h.fed.Merged, cnt), doc.Operations[0], cvars, nil)
				if err != nil {
					return "HARNESS: reference failed " + err.Error()
				}
				if act == "dataerrors" {
					// errors forwarded, and the data that came with them stitched and scrubbed like any other event's
					want = append(want, map[string]interface{}{"errors": "partial failure upstream", "partial": gqlref.Norm(data)})
				} else {
					want = append(want, map[string]interface{}{"data": gqlref.Norm(data)})
				}
			case "errorpayload":
				want = append(want, map[string]interface{}{"errors": "upstream says no"})
			case "errorlist":
				want = append(want, map[string]interface{}{"errors": "upstream list error"})
			case "error":
				// the error message of the protocol (one error object as payload): forwarded, then the operation is over
				want = append(want, map[string]interface{}{"errors": "boom"})
			}
		}
		g := got[id]
		if len(g) < len(want) {
			return fmt.Sprintf("an emitted event was not delivered (%d of %d messages)", len(g), len(want))
		}
		if len(g) > len(want) {
			return fmt.Sprintf("more messages than emitted events (%d for %d)", len(g), len(want))
		}
		for k := range want {
			if wd, ok := want[k]["data"]; ok {
				if g[k].Type != "data" {
					return "event delivered as message type " + g[k].Type
				}
				if e, _ := g[k].Payload["errors"].([]interface{}); len(e) > 0 {
					msg := ""
					if m, ok := e[0].(map[string]interface{}); ok {
						msg = fmt.Sprint(m["message"])
					}
					return "event delivered with errors: " + a.Template(msg)
				}
				pw, _ := gqlref.Prune(wd)
				pg, _ := gqlref.Prune(g[k].Payload["data"])
				if !reflect.DeepEqual(pw, pg) {
					// out of order or wrong content?
					for k2 := range want {
						if k2 != k {
							if pw2, _ := gqlref.Prune(want[k2]["data"]); reflect.DeepEqual(pw2, pg) {
								return "events delivered out of order"
							}
						}
					}
					d := a.DiffSigs(pw, pg)
					return "event payload differs from the reference: " + strings.Join(d, "; ")
				}
			} else {
				e, _ := g[k].Payload["errors"].([]interface{})
				found := false
				for _, x := range e {
					b, _ := json.Marshal(x)
					if strings.Contains(string(b), fmt.Sprint(want[k]["errors"])) {
						found = true
					}
				}
				if !found {
					return "upstream error payload not forwarded as errors"
				}
				if pd, ok := want[k]["partial"]; ok {
					if gd, has := g[k].Payload["data"]; has && gd != nil {
						pw, _ := gqlref.Prune(pd)
						pg, _ := gqlref.Prune(gd)
						for _, d := range a.DiffSigs(pw, pg) {
							if strings.HasPrefix(d, "diff:EXTRA") {
								return "event with errors and data: the data carries keys the client did not ask for: " + d
							}
						}
					}
				}
			}
		}
	}
	return ""
}

var c17Subs = []string{
	"subscription { tick }",
	"subscription { n1Changed { name } }",
	"subscription { n1Changed { name phone } }",
	"subscription { n1Changed { id n2s { title } } }",
	"subscription { n1Changed { phone v { a w { b } } } }",
	"subscription { n1Changed { __typename a: name phone } }",
	"subscription { n1Changed { n2s { owner { phone } } } }",
	"subscription { x: n1Changed { calc(x: 3) phone } }",
}

// a variable that is used two stitching levels below the event only (event at s0 -> owner at s1 -> calc at s0)
const c17DeepVarSub = "subscription ($x: Int) { n1Changed { n2s { owner { calc(x: $x) } } } }"

func c17Scenarios(tier string) []c17Scenario {
	var out []c17Scenario
	seqs := [][]upAction{{"event"}, {"event", "event"}, {"event-fragmented", "event"}, {"error"}, {"event", "error"}, {"event", "quiet11s", "event"}, {"errorlist", "event"}, {"event", "errorlist", "event"}, {"errorpayload"}, {"event", "errorpayload"}, {"errorpayload", "event"}, {"event", "complete"}, {"event", "event", "complete"}, {"dataerrors"}, {"event", "dataerrors"}}
	if tier == "thorough" {
		seqs = append(seqs, []upAction{"event", "event", "event"}, []upAction{"event", "errorpayload", "event"}, []upAction{"event", "error"}, []upAction{"event", "disconnect"})
	}
	// two subscriptions on one connection (largest scenarios first)
	pairs := [][2]string{{c17Subs[0], c17Subs[2]}, {c17Subs[2], c17Subs[2]}, {c17Subs[1], c17Subs[3]}}
	for _, p := range pairs {
		two := [][]upAction{{"event"}}
		b := 0
		if tier == "thorough" {
			two = append(two, []upAction{"event", "event"})
			b = 1
		}
		for _, s := range two {
			out = append(out, c17Scenario{world: "W0+subscription-roots", subs: []string{p[0], p[1]}, up: [][]upAction{s, s}, bound: b, planner: "plain"})
			out = append(out, c17Scenario{world: "W0+subscription-roots", subs: []string{p[0], p[1]}, up: [][]upAction{s, s}, bound: b, planner: "cached"})
		}
	}
	// two subscriptions with their own variable values for a field owned by another service
	vq := "subscription ($p: String) { n1Changed { name greet(prefix: $p) } }"
	for _, s := range [][]upAction{{"event"}} {
		b := 0
		if tier == "thorough" {
			b = 1
		}
		out = append(out, c17Scenario{world: "W0+subscription-roots+entity-scalar-arg-default", subs: []string{vq, vq},
			vars: []map[string]interface{}{{"p": "en"}, {"p": "fr"}}, up: [][]upAction{s, s}, bound: b, planner: "plain"})
		out = append(out, c17Scenario{world: "W0+subscription-roots+entity-scalar-arg-default", subs: []string{vq},
			vars: []map[string]interface{}{{"p": "en"}}, up: [][]upAction{{"event", "event"}}, bound: 1, planner: "plain"})
	}
	// a nullable subscription field whose event is null: forwarded as null, nothing to stitch
	for _, s := range [][]upAction{{"nullevent"}, {"nullevent", "event"}, {"event", "nullevent"}} {
		out = append(out, c17Scenario{world: "W0+subscription-roots", subs: []string{"subscription { n1Maybe { name phone } }"}, up: [][]upAction{s}, bound: 1, planner: "plain"})
	}
	// (what is forwarded does not hang on the schedule: default schedule and forced switches; thorough: one preemption)
	dvb := 0
	if tier == "thorough" {
		dvb = 1
	}
	for _, pl := range []string{"plain", "cached"} {
		out = append(out, c17Scenario{world: "W0+subscription-roots", subs: []string{c17DeepVarSub}, vars: []map[string]interface{}{{"x": 5}}, up: [][]upAction{{"event"}}, bound: dvb, planner: pl})
	}
	// the data of the other services changes between two events about the same entity: the second
	// event is stitched with what the services answer then
	for _, q := range []string{c17Subs[2], c17Subs[3], c17Subs[4]} {
		for _, s := range [][]upAction{{"event", "event-changed"}, {"event", "event", "event-changed"}} {
			out = append(out, c17Scenario{world: "W0+subscription-roots", subs: []string{q}, up: [][]upAction{s}, bound: 1, planner: "plain"})
		}
		out = append(out, c17Scenario{world: "W0+subscription-roots", subs: []string{q}, up: [][]upAction{{"event", "event-changed"}}, bound: 1, planner: "cached"})
	}
	// a reader that stalls while a data frame is half-way and the heartbeat comes due: the event still arrives, once and whole
	for _, q := range []string{c17Subs[0], c17Subs[2]} {
		for _, s := range [][]upAction{{"event"}, {"event", "event"}} {
			out = append(out, c17Scenario{world: "W0+subscription-roots", subs: []string{q}, up: [][]upAction{s}, bound: 2 - len(s), planner: "plain", slow: true})
		}
	}
	for _, q := range c17Subs {
		for _, s := range seqs {
			out = append(out, c17Scenario{world: "W0+subscription-roots", subs: []string{q}, up: [][]upAction{s}, bound: 1, planner: "plain"})
		}
	}
	for _, q := range c17Subs[:4] {
		out = append(out, c17Scenario{world: "W0+subscription-roots", subs: []string{q}, up: [][]upAction{{"event", "event"}}, bound: 1, planner: "cached"})
	}
	// two client connections one after the other on the same gateway: what the first leaves behind
	// (planner cache, queryers, listeners) must not reach the second
	for _, q := range []string{c17Subs[2], c17Subs[3]} {
		for _, pl := range []string{"plain", "cached"} {
			b := 0
			if tier == "thorough" {
				b = 1
			}
			out = append(out, c17Scenario{world: "W0+subscription-roots", subs: []string{q}, up: [][]upAction{{"event"}}, bound: b, planner: pl, conns: 2})
		}
	}
	if tier == "thorough" {
		for _, q := range c17Subs {
			out = append(out, c17Scenario{world: "W0+subscription-roots", subs: []string{q}, up: [][]upAction{{"event", "event"}}, bound: 2, planner: "plain"})
		}
	}
	return out
}

func init() {
	Specs["C17"] = &Spec{
		ID: "C17",
		Rule: "scenario = (1-2 subscriptions on one connection (also two connections in sequence on one gateway) out of 9 subscription operations (one with a per-subscription variable for a field of another service) whose selection needs 0, 1 or 2 other services, lists, value types, aliases, __typename; upstream event history per subscription over {event, event whose root field is null, event sent as a fragmented websocket message, error payload, error message with an object payload (ends the operation) and with a list payload, 11 s of silence, event with data and errors, complete, the previous event again after every value of the services' data has changed} " +
			"of length <=3; planner plain/cached); the real subscriptionHandler / subscriptionEntry / MultiOpQueryer.Subscribe (rewritten) run over scheduler-aware pipes against a gobwas upstream and evaluating in-memory services; " +
			"every schedule with <=1 preemption (two subscriptions: bound 0 quick, 1 thorough) is executed; the client terminates once the system is idle; plus a slow reader (16-byte receive buffer, nothing read from 0 to 6.5 s while events arrive and the 4 s heartbeat comes due, terminate at 10 s); oracle at the client's frame parser: per subscription id the sequence of data payloads " +
			"== reference evaluation of the client operation on each emitted event, in emission order, exactly once, helpers absent, never under another id, upstream error payloads arrive as errors; non-trivial = >1 execution",
		Assumptions: []string{"one upstream connection per subscription, dialled in start order", "connections are explored one after the other, not overlapping; a downstream call made through a queryer that was created for a client connection which has ended fails (as with the default factory's request-bound context)"},
		Budget: func(tier string) time.Duration {
			if tier == "quick" {
				return 120 * time.Second
			}
			return 12 * time.Minute
		},
		Shards: func(string) int { return 16 },
		Scenarios: func(tier string) []Scenario {
			hs := map[string]*gwHarness{}
			var out []Scenario
			for _, sc := range c17Scenarios(tier) {
				key := sc.world + "|" + sc.planner
				h := hs[key]
				if h == nil {
					h = newGWHarness(sc.world, a.Config{Merger: "extend", Planner: sc.planner})
					hs[key] = h
				}
				sc := sc
				var atoms []string
				for _, q := range sc.subs {
					atoms = append(atoms, h.fed.CaseAtoms(a.Case{Q: q})...)
				}
				if len(sc.subs) > 1 {
					atoms = append(atoms, "two-subscriptions")
				}
				for _, u := range sc.up {
					for _, x := range u {
						atoms = append(atoms, "upstream-"+string(x))
					}
				}
				if sc.planner == "cached" {
					atoms = append(atoms, "cfg-cached-planner")
				}
				timerBudget := 0
				if sc.slow {
					atoms = append(atoms, "slow-reader", "heartbeat")
					timerBudget = 1
				}
				out = append(out, Scenario{Name: sc.name(), Atoms: atoms,
					Opt:   explore.Options{Bound: sc.bound, Cache: true, Horizon: 100000, TimerBudget: timerBudget},
					H:     c17Harness(h, sc),
					Fresh: func() explore.Harness { return c17Harness(h.freshCopy(), sc) }})
			}
			return out
		},
	}
}
