package a

import (
	"fmt"
	"sort"
	"strings"
	"time"

	"verif/schemacanon"

	"github.com/buildbuildio/pebbles/merger"
	"github.com/vektah/gqlparser/v2"
	"github.com/vektah/gqlparser/v2/ast"
)

// C03 / C04 / C05: the real mergers called directly on enumerated schema sets.

var canonOpts = schemacanon.Options{NoDescriptions: true, NoDirectives: true}

func permutations(n int) [][]int {
	var out [][]int
	var rec func(cur []int, used []bool)
	rec = func(cur []int, used []bool) {
		if len(cur) == n {
			out = append(out, append([]int{}, cur...))
			return
		}
		for i := 0; i < n; i++ {
			if !used[i] {
				used[i] = true
				rec(append(cur, i), used)
				used[i] = false
			}
		}
	}
	rec(nil, make([]bool, n))
	return out
}

type mergeOutcome struct {
	err    string
	panicv string
	res    *merger.MergeResult
}

func runMerge(sdls []string, urls []string, order []int, sanitize bool) (out mergeOutcome) {
	defer func() {
		if r := recover(); r != nil {
			out.panicv = fmt.Sprint(r)
		}
	}()
	var in []*merger.MergeInput
	for _, i := range order {
		sc, err := gqlparser.LoadSchema(&ast.Source{Name: urls[i], Input: sdls[i]})
		if err != nil {
			out.err = "HARNESS: invalid service SDL: " + err.Error()
			return
		}
		in = append(in, &merger.MergeInput{Schema: sc, URL: urls[i]})
	}
	var res *merger.MergeResult
	var err error
	if sanitize {
		var m merger.SanitizeNodeMergerFunc
		res, err = m.Merge(in)
	} else {
		var m merger.ExtendMergerFunc
		res, err = m.Merge(in)
	}
	if err != nil {
		out.err = err.Error()
		return
	}
	out.res = res
	return
}

// unionFacts computes the expected facts of the merged schema; conflicting keys (same key,
// different values in different services) are returned separately.
func unionFacts(w *World, sanitize bool) (map[string]string, map[string]bool) {
	u := map[string]string{}
	conflict := map[string]bool{}
	for _, s := range w.Services {
		for k, v := range schemacanon.Canon(s.Schema, canonOpts) {
			if sanitize && (strings.HasPrefix(k, "field Query.node ") || strings.HasPrefix(k, "arg Query.node(")) {
				continue
			}
			if old, ok := u[k]; ok && old != v {
				conflict[k] = true
			}
			u[k] = v
		}
	}
	return u, conflict
}

func c03Sigs(w *World, sanitize bool, res *merger.MergeResult) []string {
	set := map[string]bool{}
	if res.Schema == nil {
		return []string{"merge succeeded without a schema"}
	}
	want, conflict := unionFacts(w, sanitize)
	got := schemacanon.Canon(res.Schema, canonOpts)
	for _, d := range schemacanon.Diff(want, got) {
		if conflict[d.Key] {
			continue
		}
		set["merged-schema "+d.Sig()] = true
	}
	// every operation valid against one service stays valid against the gateway's schema
	for _, s := range w.Services {
		for _, c := range GenOps(s.Schema, w, 2) {
			if sanitize && strings.Contains(c.Q, "node(id:") {
				continue
			}
			if _, errs := gqlparser.LoadQuery(res.Schema, c.Q); errs != nil {
				set["operation valid for a service is invalid for the gateway: "+Template(errs[0].Message)] = true
				break
			}
		}
	}
	// so does every introspection operation (valid against every service, whatever it declares)
	for _, q := range []string{"{ __schema { queryType { name } } }", "{ __type(name: \"Query\") { fields { name } } }", "{ __typename }"} {
		if _, errs := gqlparser.LoadQuery(res.Schema, q); errs != nil {
			set["operation valid for a service is invalid for the gateway: "+Template(errs[0].Message)] = true
			break
		}
	}
	return setToList(set)
}

func setToList(set map[string]bool) []string {
	out := make([]string, 0, len(set))
	for k := range set {
		out = append(out, k)
	}
	sort.Strings(out)
	return out
}

func c04Sigs(w *World, res *merger.MergeResult) []string {
	set := map[string]bool{}
	tm := res.TypeURLMap
	declares := func(svc int, typ, field string) bool {
		d := w.Services[svc].Schema.Types[typ]
		return d != nil && d.Fields.ForName(field) != nil
	}
	urlIdx := map[string]int{}
	for i, s := range w.Services {
		urlIdx[s.URL] = i
	}
	contributed := map[string]bool{}
	for name, t := range res.Schema.Types {
		if strings.HasPrefix(name, "__") || t.Kind != ast.Object {
			continue
		}
		isRoot := name == "Query" || name == "Mutation" || name == "Subscription"
		for _, f := range t.Fields {
			if strings.HasPrefix(f.Name, "__") || f.Name == "id" || (name == "Query" && f.Name == "node") {
				continue
			}
			url, ok := tm.Get(name, f.Name)
			if !ok {
				set["field of the merged schema has no route"] = true
				continue
			}
			si, known := urlIdx[url]
			if !known {
				set["field routed to an unknown URL"] = true
				continue
			}
			if !declares(si, name, f.Name) {
				set["field routed to a service that does not declare it"] = true
			}
			if isRoot {
				n := 0
				for i := range w.Services {
					if declares(i, name, f.Name) {
						n++
					}
				}
				if n != 1 {
					set["HARNESS: root field declared by several services in a mergeable set"] = true
				}
			}
		}
		in, ok := tm.GetTypeIsImplementsNode(name)
		if !ok && len(t.Fields) > 0 {
			// types whose only field is id have no entry unless they implement Node
			hasOther := false
			for _, f := range t.Fields {
				if f.Name != "id" && !strings.HasPrefix(f.Name, "__") {
					hasOther = true
				}
			}
			if hasOther {
				set["object type missing from the routing table"] = true
			}
		}
		if in != implementsNode(t) && ok {
			set["stitchable-by-id flag differs from 'implements Node'"] = true
		}
		if !ok && implementsNode(t) {
			set["Node type missing from the routing table"] = true
		}
	}
	for i, s := range w.Services {
		for name, t := range s.Schema.Types {
			if strings.HasPrefix(name, "__") || t.Kind != ast.Object {
				continue
			}
			for _, f := range t.Fields {
				if strings.HasPrefix(f.Name, "__") || f.Name == "id" || (name == "Query" && f.Name == "node") {
					continue
				}
				_ = i
				contributed[s.URL] = true
			}
		}
	}
	got := map[string]bool{}
	for _, u := range tm.GetURLs() {
		got[u] = true
	}
	for u := range got {
		if !contributed[u] {
			set["routed service set contains a service that contributed no field"] = true
		}
	}
	// a service all of whose fields are shadowed by later declarations of shared types may
	// legitimately vanish from the routed set only if every one of its fields is also
	// declared elsewhere
	for u := range contributed {
		if !got[u] {
			si := urlIdx[u]
			exclusive := false
			for name, t := range w.Services[si].Schema.Types {
				if strings.HasPrefix(name, "__") || t.Kind != ast.Object {
					continue
				}
				for _, f := range t.Fields {
					if strings.HasPrefix(f.Name, "__") || f.Name == "id" || (name == "Query" && f.Name == "node") {
						continue
					}
					only := true
					for j := range w.Services {
						if j != si && declares(j, name, f.Name) {
							only = false
						}
					}
					if only {
						exclusive = true
					}
				}
			}
			if exclusive {
				set["a contributing service is missing from the routed service set"] = true
			}
		}
	}
	return setToList(set)
}

// ---------------------------------------------------------------------------------------
// conflict atoms (C05)

type ConflictAtom struct {
	Name     string
	Apply    func(ss []*SvcSpec)
	Conflict bool // false: an acceptable difference (only permutation invariance is judged)
	// Third, if set, is one more service, listed behind the others (its conflict is with something two earlier services share)
	Third func() *SvcSpec
}

func kindDecl(kind, name string) (extra string, types func(s *SvcSpec)) {
	switch kind {
	case "object":
		return "", func(s *SvcSpec) { s.addType(name, "", "a: Int") }
	case "interface":
		return "", func(s *SvcSpec) { s.addType(name, "interface", "a: Int"); s.addType(name+"Impl", name, "a: Int") }
	case "enum":
		return "enum " + name + " { A B }", nil
	case "scalar":
		return "scalar " + name, nil
	case "input":
		return "input " + name + " { a: Int }", nil
	case "union":
		return "union " + name + " = " + name + "M", func(s *SvcSpec) { s.addType(name+"M", "", "a: Int") }
	}
	return "", nil
}

func rootFor(kind, name, field string) string {
	if kind == "input" {
		return fmt.Sprintf("%s(x: %s): Int", field, name)
	}
	return fmt.Sprintf("%s: %s", field, name)
}

func conflictAtoms() []ConflictAtom {
	var out []ConflictAtom
	out = append(out, ConflictAtom{"same-root-field-twice", func(ss []*SvcSpec) { ss[1].Query = append(ss[1].Query, "n1s: [N1!]!") }, true, nil})
	out = append(out, ConflictAtom{"same-mutation-root-field-twice", func(ss []*SvcSpec) {
		ss[0].Mut = append(ss[0].Mut, "dupMut(x: Int): Int")
		ss[1].Mut = append(ss[1].Mut, "dupMut(x: Int): Int")
	}, true, nil})
	kinds := []string{"object", "interface", "enum", "scalar", "input", "union"}
	for i, k1 := range kinds {
		for _, k2 := range kinds[i+1:] {
			k1, k2 := k1, k2
			out = append(out, ConflictAtom{"one-name-two-kinds:" + k1 + "/" + k2, func(ss []*SvcSpec) {
				for si, k := range []string{k1, k2} {
					ex, tf := kindDecl(k, "K")
					if ex != "" {
						ss[si].Extra = append(ss[si].Extra, ex)
					}
					if tf != nil {
						tf(ss[si])
					}
					ss[si].Query = append(ss[si].Query, rootFor(k, "K", fmt.Sprintf("k%d", si)))
				}
			}, true, nil})
		}
	}
	// a type two services share (fields of their own each, so that the merger has built its own definition of it by then) and
	// a service listed behind them which declares the name as something else
	for _, k := range []string{"interface", "enum", "scalar", "input", "union", "node-object"} {
		k := k
		out = append(out, ConflictAtom{Name: "type-shared-by-two-services-third-says-" + k, Conflict: true, Apply: func(ss []*SvcSpec) {
			ss[0].addType("K3", "", "a: Int")
			ss[0].Query = append(ss[0].Query, "k30: K3")
			ss[1].addType("K3", "", "b: Int")
			ss[1].Query = append(ss[1].Query, "k31: K3")
		}, Third: func() *SvcSpec {
			s := newSvc("http://sx")
			if k == "node-object" {
				s.addType("K3", "Node", "c: Int")
				s.Query = []string{"k3x: K3"}
				return s
			}
			ex, tf := kindDecl(k, "K3")
			if ex != "" {
				s.Extra = append(s.Extra, ex)
			}
			if tf != nil {
				tf(s)
			}
			s.Query = []string{rootFor(k, "K3", "k3x")}
			return s
		}})
	}
	out = append(out, ConflictAtom{Name: "node-type-shared-by-two-services-third-says-plain-object", Conflict: true, Apply: func(ss []*SvcSpec) {
		ss[0].addType("X3", "Node", "a: Int")
		ss[0].Query = append(ss[0].Query, "x30: X3")
		ss[1].addType("X3", "Node", "b: Int")
		ss[1].Query = append(ss[1].Query, "x31: X3")
	}, Third: func() *SvcSpec {
		s := newSvc("http://sx")
		s.addType("X3", "", "c: Int")
		s.Query = []string{"x3x: X3"}
		return s
	}})
	out = append(out, ConflictAtom{"node-in-one-service-only", func(ss []*SvcSpec) {
		ss[0].addType("X", "Node", "a: Int")
		ss[0].Query = append(ss[0].Query, "x0: X")
		ss[1].addType("X", "", "b: Int")
		ss[1].Query = append(ss[1].Query, "x1: X")
	}, true, nil})
	out = append(out, ConflictAtom{"node-in-one-service-only-other-is-id-only-stub", func(ss []*SvcSpec) {
		// the other service only refers to the type: id and nothing else, without implementing Node
		ss[0].addType("XS", "Node", "a: Int")
		ss[0].Query = append(ss[0].Query, "xs0: XS")
		ss[1].addType("XS", "", "id: ID!")
		ss[1].Query = append(ss[1].Query, "xs1: XS")
	}, true, nil})
	out = append(out, ConflictAtom{"node-lookup-with-extra-argument", func(ss []*SvcSpec) {
		// the Relay lookup declared with a second argument by one service: one root field, two signatures
		ss[0].NodeField = `node(id: ID!, lang: String = "en"): Node`
	}, true, nil})
	out = append(out, ConflictAtom{"node-type-identical-in-two-services", func(ss []*SvcSpec) {
		for si := 0; si < 2; si++ {
			ss[si].addType("XN", "Node", "a: Int", "b: String")
			ss[si].Query = append(ss[si].Query, fmt.Sprintf("xn%d: XN", si))
		}
	}, true, nil})
	out = append(out, ConflictAtom{"shared-type-id-in-one-only", func(ss []*SvcSpec) {
		ss[0].addType("PI2", "", "id: ID!", "name: String")
		ss[0].Query = append(ss[0].Query, "pi20: PI2")
		ss[1].addType("PI2", "", "name: String")
		ss[1].Query = append(ss[1].Query, "pi21: PI2")
	}, true, nil})
	for _, other := range []string{"id: String!", "id: Int!", "id(format: String): ID!"} {
		other := other
		// a shared plain type whose only common field is id, with different signatures (other fields disjoint)
		out = append(out, ConflictAtom{"shared-type-id-signature-differs:" + other, func(ss []*SvcSpec) {
			ss[0].addType("PI3", "", "id: ID!", "a: Int")
			ss[0].Query = append(ss[0].Query, "pi30: PI3")
			ss[1].addType("PI3", "", other, "b: Int")
			ss[1].Query = append(ss[1].Query, "pi31: PI3")
		}, true, nil})
	}
	out = append(out, ConflictAtom{"node-type-duplicate-field", func(ss []*SvcSpec) { ss[1].Types["N1"] = append(ss[1].Types["N1"], "name: String") }, true, nil})
	out = append(out, ConflictAtom{"shared-type-partial-overlap", func(ss []*SvcSpec) {
		ss[0].addType("P", "", "a: Int", "b: Int")
		ss[0].Query = append(ss[0].Query, "p0: P")
		ss[1].addType("P", "", "a: Int", "c: Int")
		ss[1].Query = append(ss[1].Query, "p1: P")
	}, true, nil})
	out = append(out, ConflictAtom{"shared-type-subset", func(ss []*SvcSpec) {
		ss[0].addType("P", "", "a: Int", "b: Int")
		ss[0].Query = append(ss[0].Query, "p0: P")
		ss[1].addType("P", "", "a: Int")
		ss[1].Query = append(ss[1].Query, "p1: P")
	}, true, nil})
	out = append(out, ConflictAtom{"shared-input-partial-overlap", func(ss []*SvcSpec) {
		ss[0].Extra = append(ss[0].Extra, "input PI { a: Int b: Int }")
		ss[0].Query = append(ss[0].Query, "pi0(x: PI): Int")
		ss[1].Extra = append(ss[1].Extra, "input PI { a: Int c: Int }")
		ss[1].Query = append(ss[1].Query, "pi1(x: PI): Int")
	}, true, nil})
	for _, v := range [][3]string{{"type", "a: Int", "a: String"}, {"nullability", "a: Int", "a: Int!"}, {"list", "a: Int", "a: [Int]"},
		{"arg-name", "a(x: Int): Int", "a(y: Int): Int"}, {"arg-type", "a(x: Int): Int", "a(x: String): Int"}, {"arg-default", "a(x: Int = 1): Int", "a(x: Int = 2): Int"},
		{"arg-added", "a: Int", "a(x: Int): Int"},
		// defaults that differ inside a list / object literal only
		{"arg-default-list", "a(x: [Int] = [1]): Int", "a(x: [Int] = [2, 3]): Int"}, {"arg-default-list-of-strings", `a(x: [String!] = ["new"]): Int`, `a(x: [String!] = ["sale", "old"]): Int`},
		{"arg-default-object", "a(x: InDef = {p: 1}): Int", "a(x: InDef = {p: 2}): Int"},
		// every wrapper level counts: the nullability of a list level, of the element, the depth
		{"list-level-nullability", "a: [String!]!", "a: [String!]"}, {"list-element-nullability", "a: [String!]", "a: [String]"},
		{"nested-list-level-nullability", "a: [[Int!]!]!", "a: [[Int!]]!"}, {"list-depth", "a: [[Int]]", "a: [Int]"},
		{"arg-list-level-nullability", "a(x: [Int!]!): Int", "a(x: [Int!]): Int"}, {"arg-nullability", "a(x: Int!): Int", "a(x: Int): Int"}} {
		v := v
		out = append(out, ConflictAtom{"shared-field-different-" + v[0], func(ss []*SvcSpec) {
			ss[0].addType("P", "", v[1])
			ss[0].Query = append(ss[0].Query, "p0: P")
			ss[1].addType("P", "", v[2])
			ss[1].Query = append(ss[1].Query, "p1: P")
			if strings.Contains(v[1], "InDef") {
				ss[0].Extra = append(ss[0].Extra, "input InDef { p: Int }")
				ss[1].Extra = append(ss[1].Extra, "input InDef { p: Int }")
			}
		}, true, nil})
		out = append(out, ConflictAtom{"shared-input-field-different-" + v[0], func(ss []*SvcSpec) {
			if strings.Contains(v[1], "(") || strings.Contains(v[2], "(") {
				return
			}
			ss[0].Extra = append(ss[0].Extra, "input PI { "+v[1]+" }")
			ss[0].Query = append(ss[0].Query, "pi0(x: PI): Int")
			ss[1].Extra = append(ss[1].Extra, "input PI { "+v[2]+" }")
			ss[1].Query = append(ss[1].Query, "pi1(x: PI): Int")
		}, !strings.Contains(v[1]+v[2], "("), nil})
	}
	out = append(out, ConflictAtom{"union-different-members", func(ss []*SvcSpec) {
		for si, m := range []string{"A2", "A3"} {
			ss[si].addType("A1", "", "a: Int")
			ss[si].addType(m, "", "b: Int")
			ss[si].Extra = append(ss[si].Extra, "union UU = A1 | "+m)
			ss[si].Query = append(ss[si].Query, fmt.Sprintf("uu%d: UU", si))
		}
	}, true, nil})
	out = append(out, ConflictAtom{"union-member-subset", func(ss []*SvcSpec) {
		// the member list of one service is a strict subset of the other's
		for si, ms := range [][]string{{"B1", "B2", "B3"}, {"B1", "B2"}} {
			for _, m := range ms {
				ss[si].addType(m, "", "b: Int")
			}
			ss[si].Extra = append(ss[si].Extra, "union UW = "+strings.Join(ms, " | "))
			ss[si].Query = append(ss[si].Query, fmt.Sprintf("uw%d: UW", si))
		}
	}, true, nil})
	// acceptable differences: judged for permutation invariance only
	out = append(out, ConflictAtom{"ok:enum-more-values", func(ss []*SvcSpec) {
		ss[0].Extra = append(ss[0].Extra, "enum EE { A B }")
		ss[0].Query = append(ss[0].Query, "ee0: EE")
		ss[1].Extra = append(ss[1].Extra, "enum EE { B C }")
		ss[1].Query = append(ss[1].Query, "ee1: EE")
	}, false, nil})
	out = append(out, ConflictAtom{"ok:interface-more-implementers", func(ss []*SvcSpec) {
		for si, m := range []string{"M0", "M1"} {
			ss[si].addType("IF", "interface", "a: Int")
			ss[si].addType(m, "IF", "a: Int")
			ss[si].Query = append(ss[si].Query, fmt.Sprintf("if%d: IF", si))
		}
	}, false, nil})
	out = append(out, ConflictAtom{"ok:identical-shared-type-with-descriptions", func(ss []*SvcSpec) {
		ss[0].addType("PD", "", `"doc zero" a: Int`)
		ss[0].Query = append(ss[0].Query, "pd0: PD")
		ss[1].addType("PD", "", `"doc one" a: Int`)
		ss[1].Query = append(ss[1].Query, "pd1: PD")
	}, false, nil})
	out = append(out, ConflictAtom{"ok:shared-scalar", func(ss []*SvcSpec) {
		ss[0].Extra = append(ss[0].Extra, "scalar SS")
		ss[0].Query = append(ss[0].Query, "ss0: SS")
		ss[1].Extra = append(ss[1].Extra, "scalar SS")
		ss[1].Query = append(ss[1].Query, "ss1: SS")
	}, false, nil})
	return out
}

func specsOf(d WorldDesc) ([]*SvcSpec, error) {
	var ss []*SvcSpec
	switch d.Base {
	case "W0":
		ss = baseW0()
	case "Wmin":
		ss = baseWmin()
	case "Wdeep":
		ss = baseWdeep()
	case "Wfan":
		ss = baseWfan()
	default:
		return nil, fmt.Errorf("unknown base")
	}
	for _, a := range d.Atoms {
		if wa := worldAtomByName(a); wa != nil {
			ss = wa.Apply(ss)
		}
	}
	return ss, nil
}

func mergeJobs(tier string, prop string) []string {
	bases := []string{"Wmin", "W0"}
	dw := 3
	if tier == "thorough" {
		dw = 4
	}
	if prop == "C05" {
		dw--
	}
	ws := EnumMergeWorlds(bases, dw)
	// chunk the world list into jobs
	chunk := 200
	var jobs []string
	for i := 0; i < len(ws); i += chunk {
		jobs = append(jobs, fmt.Sprintf("%d-%d/dw%d", i, min(i+chunk, len(ws)), dw))
	}
	return jobs
}

func worldsOfJob(prop, job string) []WorldDesc {
	if job == "cornersets" {
		// hand-written sets outside the atom catalogue
		if prop == "C04" {
			// (what the merged schema of a set with self-named roots should be is C03's question, and open: here only the routes are judged)
			return []WorldDesc{{Base: "Wnodex"}, {Base: "Wroots"}}
		}
		return []WorldDesc{{Base: "Wnodex"}}
	}
	var from, to, dw int
	fmt.Sscanf(job, "%d-%d/dw%d", &from, &to, &dw)
	ws := EnumMergeWorlds([]string{"Wmin", "W0"}, dw)
	return ws[from:to]
}

func routesOfNodeTypes(res *merger.MergeResult) string {
	var p []string
	for name, t := range res.Schema.Types {
		if t.Kind != ast.Object || !implementsNode(t) {
			continue
		}
		for _, f := range t.Fields {
			if u, ok := res.TypeURLMap.Get(name, f.Name); ok {
				p = append(p, name+"."+f.Name+"="+u)
			}
		}
	}
	sort.Strings(p)
	return strings.Join(p, ";")
}

func canonString(s *ast.Schema) string {
	c := schemacanon.Canon(s, canonOpts)
	keys := make([]string, 0, len(c))
	for k := range c {
		keys = append(keys, k+"="+c[k])
	}
	sort.Strings(keys)
	return strings.Join(keys, "\n")
}

func init() {
	mk := func(id string) *Prop {
		p := &Prop{ID: id, Level: "exploration",
			Budget: func(tier string) time.Duration {
				if tier == "quick" {
					return 120 * time.Second
				}
				return 10 * time.Minute
			},
			Jobs: func(tier string) []string { return mergeJobs(tier, id) },
		}
		return p
	}
	c03 := mk("C03")
	c03.Rule = "case = (schema set = base + <=3 (thorough 4) world atoms incl. type-system atoms: wrapper shapes, defaults of every kind, descriptions, deprecations, custom directives, interface chains, shared types/enums, 3rd/4th service; " +
		"permutation of the service list; merger in {default, node-hiding}); the real merger is called directly; oracle: result loads as a valid schema, canonical facts of the result == union of the services' canonical facts " +
		"(types, kinds, fields, argument names/types/defaults, enum values, union members, implements, possible types, input fields, directive definitions, root types), and every operation (<=2 fields) of each service and the introspection operations validate against the result; plus the conflicting sets of C05 (2 bases x 46 conflict atoms x permutations): " +
		"refusing them is fine, a merge that succeeds must not have lost or overridden a declaration; plus 11 schema sets taken through the whole start-up path (real remote introspector over spec-shaped responders, then the merger inside NewGateway) under the same oracle; non-trivial = >=2 services"
	c03.Assumptions = []string{"schemacanon.Canon defines schema equality (descriptions and applied directives excluded as the statement does not list them)", "all service sets here are mergeable by construction"}
	c03.RunJob = func(tier, job string, from int, em *Emitter) { mergeRun("C03", tier, job, from, em) }
	c03.Jobs = func(tier string) []string {
		return append([]string{"conflicts", "introspected", "cornersets"}, mergeJobs(tier, "C03")...)
	}
	Props["C03"] = c03

	c04 := mk("C04")
	c04.Rule = "same schema-set enumeration as C03; oracle on MergeResult.TypeURLMap: every root field routed to exactly the one declaring service, every non-id field of every object type routed to a service whose SDL declares it, " +
		"IsImplementsNode <=> implements Node, GetURLs() == services that contributed fields, no unrouted field; plus a start-up part: the gateway is constructed through the real ParallelRemoteSchemaIntrospector over 7 schema sets with no or one service " +
		"failing its introspection (each position), refusing to start is accepted, a gateway that starts is held to the same oracle over the services that answered; plus the conflicting sets of C05: if the merger accepts one, its table is held to the same oracle; non-trivial = >=2 services"
	c04.Assumptions = []string{"the services' SDL is the ground truth for ownership"}
	c04.RunJob = func(tier, job string, from int, em *Emitter) { mergeRun("C04", tier, job, from, em) }
	c04.Jobs = func(tier string) []string {
		return append([]string{"introfail", "conflicts", "cornersets"}, mergeJobs(tier, "C04")...)
	}
	Props["C04"] = c04

	c05 := mk("C05")
	c05.Rule = "case = (mergeable schema set (base + <=2 (thorough 3) world atoms), one conflict atom out of 55: same root field twice (query, mutation), one name two kinds (all 15 kind pairs), Node in one service only, Node type with duplicated field, " +
		"shared type/input partial overlap or subset, shared (input) field with different type/nullability/list wrapper/argument name/type/default (also defaults that differ inside a list or object literal only), union with different members (overlapping, and one list a strict subset of the other); plus 4 acceptable differences) x all permutations of the service list; " +
		"oracle: Merge returns an error for a conflict (no panic, no silent success), accept/reject identical across permutations, and on accept canonical facts and Node-field routes identical across permutations; " +
		"the mergeable sets themselves are also checked for permutation invariance; non-trivial = a conflict atom was applied"
	c05.Assumptions = []string{"the conflict catalogue is exactly the list in the property statement"}
	c05.RunJob = func(tier, job string, from int, em *Emitter) { mergeRun("C05", tier, job, from, em) }
	Props["C05"] = c05
}

// introFailWorlds are the schema sets of the start-up part: one service does not answer its
// introspection while the gateway is constructed.
var introFailWorlds = []string{"W0", "Wmin", "W0+third-service", "Wmin+third-service", "W0+mutation-second-service", "W0+third-service+service-without-node", "W0+shared-value-type"}

// c04IntroFail: the gateway is constructed through the real introspector with one service down.
// Refusing to start is fine; a gateway that does start must route every field to a service that
// declares it, and exactly the services that delivered a schema with fields are routed to.
func c04IntroFail(from int, em *Emitter) {
	idx := 0
	for _, wn := range introFailWorlds {
		parts := strings.Split(wn, "+")
		wd := WorldDesc{Base: parts[0], Atoms: parts[1:]}
		w, err := wd.Build()
		if err != nil {
			em.GenError(err.Error())
			continue
		}
		for k := 0; k <= len(w.Services); k++ {
			for _, sanitize := range []bool{false, true} {
				idx++
				if idx-1 < from {
					continue
				}
				cfg := Config{Merger: "extend", Planner: "plain", IntroFail: k}
				if k == 0 {
					cfg.IntroFail = -1
				}
				if sanitize {
					cfg.Merger = "sanitize"
				}
				atoms := append(append([]string{}, w.Atoms...), cfg.Atoms()...)
				atoms = append(atoms, "startup-through-real-introspector")
				rp := map[string]interface{}{"world": wd.Name(), "cfg": cfg.String()}
				if !em.Begin(idx-1, atoms, rp) {
					if em.Capped() {
						return
					}
					continue
				}
				f, err := NewFed(w, cfg)
				var sigs []string
				switch {
				case err != nil && k == 0:
					sigs = []string{"mergeable set rejected: " + Template(err.Error())}
				case err != nil:
					// the gateway does not start without the service
				default:
					w2 := *w
					w2.Services = nil
					for i, sv := range w.Services {
						if i != k-1 {
							w2.Services = append(w2.Services, sv)
						}
					}
					sigs = c04Sigs(&w2, &merger.MergeResult{Schema: f.GWSchema, TypeURLMap: f.TUM})
				}
				if len(sigs) > 0 {
					em.Fail(atoms, sigs, rp)
				}
				em.Sample(rp)
				em.Done(true)
			}
		}
	}
}

// c03Conflicts: C03 speaks about merges that succeed. A set with conflicting declarations may be refused (C05 asks for
// that); if the merger accepts it, the result must still carry every fact of every service - which it cannot
// where two services disagree, and which it does not where a declaration got lost on the way.
func c03Conflicts(prop string, from int, em *Emitter) {
	idx := 0
	for _, base := range []string{"Wmin", "W0"} {
		for _, ca := range conflictAtoms() {
			if !ca.Conflict {
				continue
			}
			ss, _ := specsOf(WorldDesc{Base: base})
			ca.Apply(ss)
			if ca.Third != nil {
				ss = append(ss, ca.Third())
			}
			var sdls, urls []string
			var schemas []*ast.Schema
			valid := true
			for _, sp := range ss {
				sdl := sp.SDL()
				sc, err := gqlparser.LoadSchema(&ast.Source{Input: sdl})
				if err != nil {
					valid = false
					break
				}
				schemas = append(schemas, sc)
				sdls = append(sdls, sdl)
				urls = append(urls, sp.URL)
			}
			if !valid {
				continue
			}
			for _, order := range permutations(len(ss)) {
				idx++
				if idx-1 < from {
					continue
				}
				atoms := []string{"base-" + base, "conflict-" + ca.Name, "conflicting-set"}
				if order[0] != 0 {
					atoms = append(atoms, "permuted")
				}
				rp := map[string]interface{}{"world": base, "conflict": ca.Name, "order": order, "sdl": sdls}
				if !em.Begin(idx-1, atoms, rp) {
					if em.Capped() {
						return
					}
					continue
				}
				out := runMerge(sdls, urls, order, false)
				set := map[string]bool{}
				switch {
				case out.panicv != "":
					set["merge panicked: "+Template(out.panicv)] = true
				case out.err != "":
					// refused: nothing to say here
				case out.res == nil || out.res.Schema == nil:
					set["merge succeeded without a schema"] = true
				case prop == "C04":
					// whatever the merger accepts, its routing table has to be right about it
					w2 := &World{Name: base}
					for i := range schemas {
						w2.Services = append(w2.Services, &Service{URL: urls[i], SDL: sdls[i], Schema: schemas[i]})
					}
					for _, sg := range c04Sigs(w2, out.res) {
						if !strings.HasPrefix(sg, "HARNESS") {
							set[sg] = true
						}
					}
				default:
					want := map[string]string{}
					for _, sc := range schemas {
						for k, v := range schemacanon.Canon(sc, canonOpts) {
							if old, ok := want[k]; ok && old != v {
								set["conflicting declarations merged silently: "+schemacanon.Class(k)] = true
							}
							want[k] = v
						}
					}
					for _, d := range schemacanon.Diff(want, schemacanon.Canon(out.res.Schema, canonOpts)) {
						if d.Kind != "CHANGED" {
							set["merged-schema "+d.Sig()] = true
						}
					}
				}
				if len(set) > 0 {
					em.Fail(atoms, setToList(set), rp)
				}
				em.Done(true)
			}
		}
	}
}

// c03Introspected: the whole start-up path - the schemas are fetched by the real remote introspector from
// spec-shaped responders and merged by the real merger inside NewGateway; the facts of the gateway's schema must
// still be the union of the services' facts.
func c03Introspected(from int, em *Emitter) {
	saved := WorldAtoms
	WorldAtoms = append(append([]WorldAtom{}, WorldAtoms...), MergeAtoms...)
	defer func() { WorldAtoms = saved }()
	idx := 0
	for _, wn := range []string{"W0", "Wmin", "W0+ts-directive", "W0+ts-defaults", "W0+ts-deprecated", "W0+ts-wrappers", "W0+third-service", "W0+shared-enum", "W0+ts-interface-chain",
		"W0+directives-named-like-draft-spec-ones", "Wmin+directives-named-like-draft-spec-ones+ts-directive"} {
		parts := strings.Split(wn, "+")
		wd := WorldDesc{Base: parts[0], Atoms: parts[1:]}
		w, err := wd.Build()
		if err != nil {
			em.GenError(err.Error())
			continue
		}
		for _, sanitize := range []bool{false, true} {
			idx++
			if idx-1 < from {
				continue
			}
			cfg := Config{Merger: "extend", Planner: "plain", IntroFail: -1}
			if sanitize {
				cfg.Merger = "sanitize"
			}
			atoms := append(append([]string{}, w.Atoms...), cfg.Atoms()...)
			atoms = append(atoms, "startup-through-real-introspector")
			rp := map[string]interface{}{"world": wd.Name(), "cfg": cfg.String()}
			if !em.Begin(idx-1, atoms, rp) {
				if em.Capped() {
					return
				}
				continue
			}
			f, err := NewFed(w, cfg)
			var sigs []string
			if err != nil {
				sigs = []string{"mergeable set rejected at start-up: " + Template(err.Error())}
			} else {
				sigs = c03Sigs(w, sanitize, &merger.MergeResult{Schema: f.GWSchema, TypeURLMap: f.TUM})
			}
			if len(sigs) > 0 {
				em.Fail(atoms, sigs, rp)
			}
			em.Sample(rp)
			em.Done(true)
		}
	}
}

func mergeRun(prop, tier, job string, from int, em *Emitter) {
	if job == "introspected" {
		c03Introspected(from, em)
		return
	}
	if job == "introfail" {
		c04IntroFail(from, em)
		return
	}
	if job == "conflicts" {
		c03Conflicts(prop, from, em)
		return
	}
	ws := worldsOfJob(prop, job)
	idx := 0
	for _, wd := range ws {
		if prop == "C05" {
			c05World(wd, &idx, from, em)
			if em.Capped() {
				return
			}
			continue
		}
		w, err := wd.Build()
		if err != nil {
			em.GenError(err.Error())
			continue
		}
		var sdls []string
		for _, s := range w.Services {
			sdls = append(sdls, s.SDL)
		}
		for _, order := range permutations(len(w.Services)) {
			for _, sanitize := range []bool{false, true} {
				idx++
				if idx-1 < from {
					continue
				}
				atoms := append([]string{}, w.Atoms...)
				if sanitize {
					atoms = append(atoms, "cfg-sanitize-merger")
				}
				if order[0] != 0 {
					atoms = append(atoms, "permuted")
				}
				rp := map[string]interface{}{"world": wd.Name(), "order": order, "sanitize": sanitize, "sdl": sdls}
				if !em.Begin(idx-1, atoms, rp) {
					if em.Capped() {
						return
					}
					continue
				}
				out := runMerge(sdls, w.URLs(), order, sanitize)
				var sigs []string
				switch {
				case out.panicv != "":
					sigs = []string{"merge panicked: " + Template(out.panicv)}
				case out.err != "":
					sigs = []string{"mergeable set rejected: " + Template(out.err)}
				case prop == "C03":
					sigs = c03Sigs(w, sanitize, out.res)
				case prop == "C04":
					sigs = c04Sigs(w, out.res)
				}
				if len(sigs) > 0 {
					em.Fail(atoms, sigs, rp)
				}
				if idx%199 == 0 {
					em.Sample(map[string]interface{}{"world": wd.Name(), "order": order, "sanitize": sanitize})
				}
				em.Done(len(w.Services) >= 2)
			}
		}
	}
}

func c05World(wd WorldDesc, idx *int, from int, em *Emitter) {
	cas := append([]ConflictAtom{{Name: "none", Apply: func([]*SvcSpec) {}, Conflict: false}}, conflictAtoms()...)
	for _, ca := range cas {
		*idx++
		if *idx-1 < from {
			continue
		}
		ss, err := specsOf(wd)
		if err != nil {
			em.GenError(err.Error())
			return
		}
		ca.Apply(ss)
		if ca.Third != nil {
			ss = append(ss, ca.Third())
		}
		var sdls, urls []string
		valid := true
		for _, s := range ss {
			sdl := s.SDL()
			if _, err := gqlparser.LoadSchema(&ast.Source{Input: sdl}); err != nil {
				valid = false
			}
			sdls = append(sdls, sdl)
			urls = append(urls, s.URL)
		}
		if !valid {
			em.GenError("conflict atom " + ca.Name + " produced an invalid service SDL on " + wd.Name())
			continue
		}
		atoms := append([]string{"base-" + wd.Base}, wd.Atoms...)
		atoms = append(atoms, "conflict-"+ca.Name)
		rp := map[string]interface{}{"world": wd.Name(), "conflict": ca.Name, "sdl": sdls}
		if !em.Begin(*idx-1, atoms, rp) {
			if em.Capped() {
				return
			}
			continue
		}
		set := map[string]bool{}
		var verdicts []string
		var canons, routes []string
		for _, order := range permutations(len(ss)) {
			out := runMerge(sdls, urls, order, false)
			switch {
			case out.panicv != "":
				set["merge panicked: "+Template(out.panicv)] = true
				verdicts = append(verdicts, "panic")
			case out.err != "":
				verdicts = append(verdicts, "reject")
			default:
				verdicts = append(verdicts, "accept")
				canons = append(canons, canonString(out.res.Schema))
				routes = append(routes, routesOfNodeTypes(out.res))
				if ca.Conflict {
					set["conflicting set accepted silently"] = true
				}
			}
		}
		for _, v := range verdicts[1:] {
			if v != verdicts[0] {
				set["accept/reject depends on the order of the service list"] = true
			}
		}
		for i := 1; i < len(canons); i++ {
			if canons[i] != canons[0] {
				set["merged types/fields depend on the order of the service list"] = true
			}
			if routes[i] != routes[0] {
				set["Node-field routes depend on the order of the service list"] = true
			}
		}
		if len(set) > 0 {
			em.Fail(atoms, setToList(set), rp)
		}
		if *idx%97 == 0 {
			em.Sample(map[string]interface{}{"world": wd.Name(), "conflict": ca.Name, "verdicts": verdicts})
		}
		em.Done(ca.Name != "none")
	}
}
