package a

import (
	"fmt"
	"sort"
	"strings"
)

// Base worlds and the catalogue of world / data atoms (DESIGN §3.2).

func newSvc(url string) *SvcSpec {
	return &SvcSpec{URL: url, Types: map[string][]string{}, Impl: map[string]string{}}
}

// baseW0: two Node types split over two services with a list reference in each direction
// owned by different services, a value type, a scalar with argument, mutations.
func baseW0() []*SvcSpec {
	s0 := newSvc("http://s0")
	s0.addType("N1", "Node", "name: String", "n2s: [N2!]!", "calc(x: Int): Int")
	s0.addType("N2", "Node")
	s0.Query = []string{"n1s: [N1!]!", "echo(x: Int = 7): Int"}
	s0.Mut = []string{"incr(by: Int!): Int!", "mkN1(name: String): N1!"}
	s1 := newSvc("http://s1")
	s1.addType("N1", "Node", "phone: String", "v: V")
	s1.addType("N2", "Node", "title: String", "owner: N1!")
	s1.addType("V", "", "a: Int", "w: W")
	s1.addType("W", "", "b: String")
	s1.Query = []string{"n2: N2", "v: V"}
	return []*SvcSpec{s0, s1}
}

// baseWmin: the README shape.
func baseWmin() []*SvcSpec {
	s0 := newSvc("http://s0")
	s0.addType("N1", "Node", "name: String")
	s0.Query = []string{"n1s: [N1!]!"}
	s1 := newSvc("http://s1")
	s1.addType("N1", "Node", "phone: String")
	return []*SvcSpec{s0, s1}
}

// baseWdeep: a chain of value types at one service ending in two entity references whose
// fields live at the other service (same-service path of length >= 3 with two siblings
// that each need a child step).  Tiny on purpose: all operations up to K=8 are enumerable.
func baseWdeep() []*SvcSpec {
	s0 := newSvc("http://s0")
	s0.addType("N1", "Node", "name: String")
	s0.Query = []string{"n1s: [N1!]!"}
	s1 := newSvc("http://s1")
	s1.addType("N1", "Node")
	s1.addType("A", "", "b: B")
	s1.addType("B", "", "c: C")
	s1.addType("C", "", "l: N1", "r: N1")
	s1.Query = []string{"root: A"}
	return []*SvcSpec{s0, s1}
}

// baseWnodex: the Node interface declares a second field, which every Node type then has - fields of the merged schema like any
// other. (A Node type two services share would declare that field twice and be refused: the services of this set share no type.)
func baseWnodex() []*SvcSpec {
	s0, s1 := newSvc("http://s0"), newSvc("http://s1")
	s0.NodeExtra, s1.NodeExtra = "createdAt: String", "createdAt: String"
	s0.addType("UA", "Node", "uname: String")
	s0.Query = []string{"uas: [UA!]!"}
	s1.addType("RB", "Node", "body: String")
	s1.Query = []string{"rbs: [RB!]!"}
	return []*SvcSpec{s0, s1}
}

// baseWroots: the service listed second names its root types itself (schema { query: RootQuery mutation: RootMutation }).
func baseWroots() []*SvcSpec {
	s0, s1 := newSvc("http://s0"), newSvc("http://s1")
	s0.addType("UA", "Node", "uname: String")
	s0.Query = []string{"uas: [UA!]!"}
	s0.Mut = []string{"mkUA(name: String): UA!"}
	s1.RootPrefix = "Root"
	s1.addType("RB", "Node", "body: String")
	s1.Query = []string{"rbs: [RB!]!"}
	s1.Mut = []string{"addRB(body: String): RB!"}
	return []*SvcSpec{s0, s1}
}

// baseWfan: one entity with three self references owned by the root service and one scalar
// at each of two other services, so that the child steps of one level alternate services.
func baseWfan() []*SvcSpec {
	s0 := newSvc("http://s0")
	s0.addType("N1", "Node", "a: N1", "b: N1", "c: N1")
	s0.Query = []string{"n1s: [N1!]!"}
	s1 := newSvc("http://s1")
	s1.addType("N1", "Node", "p: String")
	s2 := newSvc("http://s2")
	s2.addType("N1", "Node", "q: String")
	return []*SvcSpec{s0, s1, s2}
}

type WorldAtom struct {
	Name  string
	Apply func(ss []*SvcSpec) []*SvcSpec // may append services
	// NeedW0 marks atoms that reference types only W0 has (N2, V)
	NeedW0 bool
}

// addRoot appends root field lines, skipping a field the root already has (several atoms
// bring the same helper mutations).
func addRoot(dst *[]string, lines ...string) {
	for _, l := range lines {
		name := l
		if i := strings.IndexAny(l, "(:"); i > 0 {
			name = l[:i]
		}
		dup := false
		for _, have := range *dst {
			h := have
			if i := strings.IndexAny(have, "(:"); i > 0 {
				h = have[:i]
			}
			if h == name {
				dup = true
			}
		}
		if !dup {
			*dst = append(*dst, l)
		}
	}
}

func ensure(ss []*SvcSpec, i int, typ, impl string) {
	if !ss[i].hasType(typ) {
		ss[i].addType(typ, impl)
	}
}

var WorldAtoms = []WorldAtom{
	{"root-single", func(ss []*SvcSpec) []*SvcSpec { ss[0].Query = append(ss[0].Query, "n1: N1"); return ss }, false},
	{"root-by-id", func(ss []*SvcSpec) []*SvcSpec { ss[0].Query = append(ss[0].Query, "n1ById(id: ID!): N1"); return ss }, false},
	{"root-nullable-list", func(ss []*SvcSpec) []*SvcSpec { ss[1].Query = append(ss[1].Query, "maybeN1s: [N1]"); return ss }, false},
	{"root-list-of-lists", func(ss []*SvcSpec) []*SvcSpec { ss[0].Query = append(ss[0].Query, "grid: [[N1!]]"); return ss }, false},
	{"root-scalar-list", func(ss []*SvcSpec) []*SvcSpec { ss[0].Query = append(ss[0].Query, "tags: [String]"); return ss }, false},
	{"root-enum", func(ss []*SvcSpec) []*SvcSpec {
		ss[0].Query = append(ss[0].Query, "pickE(e: E = A): E")
		ss[0].Extra = append(ss[0].Extra, "enum E { A B C }")
		return ss
	}, false},
	{"root-input", func(ss []*SvcSpec) []*SvcSpec {
		ss[0].Query = append(ss[0].Query, "echoIn(in: In): String")
		ss[0].Extra = append(ss[0].Extra, "input In { a: Int b: [String] c: In }")
		return ss
	}, false},
	{"root-input-lists", func(ss []*SvcSpec) []*SvcSpec {
		// input objects inside lists inside input objects (variables can sit at any leaf)
		ss[0].Query = append(ss[0].Query, "find(filter: Filter, ranges: [Range!]): String")
		ss[0].Extra = append(ss[0].Extra, "input Range { min: Int max: Int }", "input Filter { years: [Range!] anyOf: [Filter!] title: String }")
		ss[1].Types["N1"] = append(ss[1].Types["N1"], "pick(ranges: [Range!]): String")
		ss[1].Extra = append(ss[1].Extra, "input Range { min: Int max: Int }")
		return ss
	}, false},
	{"root-custom-scalar", func(ss []*SvcSpec) []*SvcSpec {
		ss[1].Query = append(ss[1].Query, "when(at: DateTime): DateTime")
		ss[1].Extra = append(ss[1].Extra, "scalar DateTime")
		return ss
	}, false},
	{"interface-field-owned-per-implementation", func(ss []*SvcSpec) []*SvcSpec {
		// one field of an interface lives in different services for different implementations; the service that
		// answers the interface-typed root field declares the interface without it
		ss[0].addType("Usr", "interface", "id: ID!")
		ss[0].addType("UA", "Node & Usr", "uname: String")
		ss[0].addType("UB", "Node & Usr")
		ss[0].Query = append(ss[0].Query, "usrs: [Usr!]!")
		ss[1].addType("Usr", "interface", "id: ID!", "uname: String")
		ss[1].addType("UB", "Node & Usr", "uname: String")
		return ss
	}, false},
	{"underscore-names", func(ss []*SvcSpec) []*SvcSpec {
		// names that start with one underscore are ordinary names (two are reserved)
		ss[1].Query = append(ss[1].Query, "_meta: String")
		ss[1].Types["N1"] = append(ss[1].Types["N1"], "_rev: Int")
		return ss
	}, false},
	{"root-two-args", func(ss []*SvcSpec) []*SvcSpec {
		ss[1].Query = append(ss[1].Query, "add(a: Int!, b: Int = 2): Int")
		return ss
	}, false},
	{"entity-scalar-arg-default", func(ss []*SvcSpec) []*SvcSpec {
		ss[1].Types["N1"] = append(ss[1].Types["N1"], `greet(prefix: String = "hi"): String`)
		return ss
	}, false},
	{"entity-ref-self", func(ss []*SvcSpec) []*SvcSpec { ss[0].Types["N1"] = append(ss[0].Types["N1"], "peer: N1"); return ss }, false},
	{"entity-ref-self-other-svc", func(ss []*SvcSpec) []*SvcSpec { ss[1].Types["N1"] = append(ss[1].Types["N1"], "buddy: N1"); return ss }, false},
	{"entity-list-self", func(ss []*SvcSpec) []*SvcSpec {
		ss[1].Types["N1"] = append(ss[1].Types["N1"], "friends: [N1!]!")
		return ss
	}, false},
	{"entity-list-nullable", func(ss []*SvcSpec) []*SvcSpec {
		ss[1].Types["N1"] = append(ss[1].Types["N1"], "maybeFriends: [N1]")
		return ss
	}, false},
	{"entity-scalar-list", func(ss []*SvcSpec) []*SvcSpec {
		ss[1].Types["N1"] = append(ss[1].Types["N1"], "nick: [String]")
		return ss
	}, false},
	{"entity-list-arg", func(ss []*SvcSpec) []*SvcSpec {
		ss[1].Types["N1"] = append(ss[1].Types["N1"], "top(first: Int): [N1!]!")
		return ss
	}, false},
	{"value-type-entity-ref", func(ss []*SvcSpec) []*SvcSpec { ss[1].Types["V"] = append(ss[1].Types["V"], "n1: N1"); return ss }, true},
	{"value-type-list", func(ss []*SvcSpec) []*SvcSpec { ss[1].Types["N1"] = append(ss[1].Types["N1"], "vs: [V!]"); return ss }, true},
	{"n2-backref-list", func(ss []*SvcSpec) []*SvcSpec {
		ss[0].Types["N2"] = append(ss[0].Types["N2"], "n1s: [N1!]!")
		return ss
	}, true},
	{"interface-value", func(ss []*SvcSpec) []*SvcSpec {
		ss[1].addType("I", "interface", "a: Int")
		ss[1].addType("IA", "I", "a: Int", "x: String")
		ss[1].addType("IB", "I", "a: Int", "y: String")
		ss[1].Query = append(ss[1].Query, "things: [I]", "thing: I")
		return ss
	}, false},
	{"interface-entities", func(ss []*SvcSpec) []*SvcSpec {
		ss[0].addType("Named", "interface", "name: String")
		ss[0].Impl["N1"] = "Node & Named"
		ss[0].addType("N3", "Node & Named", "name: String")
		ss[0].Query = append(ss[0].Query, "named: [Named!]!")
		ss[1].addType("N3", "Node", "size: Int")
		return ss
	}, false},
	{"union-list", func(ss []*SvcSpec) []*SvcSpec {
		ensure(ss, 1, "N1", "Node")
		ss[1].addType("N4", "Node", "label: String")
		ss[1].Extra = append(ss[1].Extra, "union U = N1 | N4")
		ss[1].Query = append(ss[1].Query, "us: [U]")
		return ss
	}, false},
	{"union-single", func(ss []*SvcSpec) []*SvcSpec {
		ss[1].addType("N5", "Node", "mark: String")
		ss[1].Extra = append(ss[1].Extra, "union U1 = N1 | N5")
		ss[1].Query = append(ss[1].Query, "u: U1")
		return ss
	}, false},
	{"union-value-types", func(ss []*SvcSpec) []*SvcSpec {
		ss[1].addType("VA", "", "p: Int")
		ss[1].addType("VB", "", "q: String")
		ss[1].Extra = append(ss[1].Extra, "union UV = VA | VB")
		ss[1].Query = append(ss[1].Query, "uvs: [UV!]")
		return ss
	}, false},
	{"union-under-object", func(ss []*SvcSpec) []*SvcSpec {
		// a value type holding a list of a union of entities whose fields live at the other service
		ensure(ss, 1, "N1", "Node")
		ss[1].addType("N6", "Node", "tag: String")
		ss[1].Extra = append(ss[1].Extra, "union UB = N1 | N6")
		ss[1].addType("Box", "", "items: [UB]", "first: UB")
		ss[1].Query = append(ss[1].Query, "box: Box")
		return ss
	}, false},
	{"node-typed-field", func(ss []*SvcSpec) []*SvcSpec { ss[0].Query = append(ss[0].Query, "anyNode: Node"); return ss }, false},
	{"entity-node-typed-field", func(ss []*SvcSpec) []*SvcSpec {
		ss[1].Types["N1"] = append(ss[1].Types["N1"], "related: Node")
		return ss
	}, false},
	{"shared-value-type", func(ss []*SvcSpec) []*SvcSpec {
		ss[0].addType("SV", "", "p: Int", "q: String")
		ss[1].addType("SV", "", "p: Int", "q: String")
		ss[0].Query = append(ss[0].Query, "sv0: SV")
		ss[1].Query = append(ss[1].Query, "sv1: SV")
		return ss
	}, false},
	{"shared-enum", func(ss []*SvcSpec) []*SvcSpec {
		ss[0].Extra = append(ss[0].Extra, "enum Color { RED GREEN }")
		ss[1].Extra = append(ss[1].Extra, "enum Color { RED GREEN }")
		ss[0].Query = append(ss[0].Query, "c0(c: Color): Color")
		ss[1].Query = append(ss[1].Query, "c1(c: Color = RED): Color")
		return ss
	}, false},
	{"shared-enum-extended", func(ss []*SvcSpec) []*SvcSpec {
		ss[0].Extra = append(ss[0].Extra, "enum Shade { DARK MID }")
		ss[1].Extra = append(ss[1].Extra, "enum Shade { MID LIGHT }")
		ss[0].Query = append(ss[0].Query, "shade0(s: Shade): Shade")
		ss[1].Query = append(ss[1].Query, "shade1(s: Shade = MID): Shade")
		return ss
	}, false},
	{"entity-two-interfaces-one-service", func(ss []*SvcSpec) []*SvcSpec {
		ss[0].addType("Tagged7", "interface", "tag: String")
		ss[0].addType("N7", "Node & Tagged7", "tag: String")
		ss[0].Query = append(ss[0].Query, "n7s: [N7!]!")
		ss[1].Types["N1"] = append(ss[1].Types["N1"], "n7: N7")
		ss[1].addType("N7", "Node", "seven: Int")
		return ss
	}, false},
	{"mutation-node-shaped-field", func(ss []*SvcSpec) []*SvcSpec {
		// a root field with the shape of the Relay lookup, (id: ID!): Node, but another name and root type
		addRoot(&ss[0].Mut, "archive(id: ID!): Node")
		addRoot(&ss[0].Mut, "incr(by: Int!): Int!")
		addRoot(&ss[1].Mut, "bump(by: Int!): Int!")
		ss[1].Query = append(ss[1].Query, "lookup(id: ID!): Node")
		return ss
	}, false},
	{"shared-input-with-defaults", func(ss []*SvcSpec) []*SvcSpec {
		for i := 0; i < 2; i++ {
			ss[i].Extra = append(ss[i].Extra, `input Page { limit: Int! = 10 after: String = "a" tags: [String!] = ["x"] }`)
			ss[i].Query = append(ss[i].Query, fmt.Sprintf("page%d(p: Page = {limit: 3}): Int", i))
		}
		return ss
	}, false},
	{"edge-type-with-node-field", func(ss []*SvcSpec) []*SvcSpec {
		// a Relay connection edge: an ordinary type with a field called node
		ss[1].addType("N1Edge", "", "cursor: String", "node: N1")
		ss[1].Query = append(ss[1].Query, "edges: [N1Edge!]")
		return ss
	}, false},
	{"id-only-node-type", func(ss []*SvcSpec) []*SvcSpec {
		ss[0].addType("Tenant", "Node")
		ss[0].Query = append(ss[0].Query, "tenant: Tenant")
		return ss
	}, false},
	{"mutation-null-and-empty-results", func(ss []*SvcSpec) []*SvcSpec {
		addRoot(&ss[0].Mut, "nullN1: N1", "emptyN1s: [N1!]!")
		addRoot(&ss[0].Mut, "incr(by: Int!): Int!")
		addRoot(&ss[1].Mut, "bump(by: Int!): Int!")
		return ss
	}, false},
	{"third-service", func(ss []*SvcSpec) []*SvcSpec {
		s2 := newSvc("http://s2")
		s2.addType("N1", "Node", "extra: String", "n6: N6")
		s2.addType("N6", "Node", "six: Int")
		s2.Query = []string{"n6s: [N6!]!"}
		return append(ss, s2)
	}, false},
	{"service-without-node", func(ss []*SvcSpec) []*SvcSpec {
		s2 := newSvc("http://s9")
		s2.NoNode = true
		s2.addType("PV", "", "x: Int", "y: String")
		s2.Query = []string{"ping: String", "pv: PV", "pvs: [PV!]!"}
		return append(ss, s2)
	}, false},
	{"mutation-second-service", func(ss []*SvcSpec) []*SvcSpec {
		addRoot(&ss[1].Mut, "bump(by: Int!): Int!", "touchN1(id: ID!): N1")
		addRoot(&ss[0].Mut, "incr(by: Int!): Int!", "mkN1(name: String): N1!")
		return ss
	}, false},
	{"same-root-name-query-mutation", func(ss []*SvcSpec) []*SvcSpec {
		ss[0].Query = append(ss[0].Query, "both(x: Int): Int")
		addRoot(&ss[0].Mut, "both(x: Int): Int")
		return ss
	}, false},
	{"subscription-roots", func(ss []*SvcSpec) []*SvcSpec {
		ss[0].Sub = append(ss[0].Sub, "n1Changed: N1!", "tick: Int", "n1Maybe: N1")
		return ss
	}, false},
	{"upload-roots", func(ss []*SvcSpec) []*SvcSpec {
		ss[0].Extra = append(ss[0].Extra, "scalar Upload", "input UpIn { f: Upload fs: [Upload] s: String }")
		addRoot(&ss[0].Mut, "upload(f: Upload): String", "uploadMany(fs: [Upload]): String", "uploadIn(in: UpIn): String")
		addRoot(&ss[0].Mut, "incr(by: Int!): Int!")
		return ss
	}, false},
	{"upload-second-service", func(ss []*SvcSpec) []*SvcSpec {
		ss[1].Extra = append(ss[1].Extra, "scalar Upload", "input UpIn { f: Upload fs: [Upload] s: String }")
		addRoot(&ss[1].Mut, "upload1(f: Upload): String", "plain1(s: String): String", "uploadIn1(in: UpIn): String")
		return ss
	}, false},
	{"ts-wrappers", func(ss []*SvcSpec) []*SvcSpec {
		ss[1].addType("Wr", "", "a: [Int]", "b: [Int!]", "c: [Int]!", "d: [Int!]!", "e: [[Int]]", "f: [[Int!]!]!", "g: [[[Int]]]", "h: [[Int]!]")
		ss[1].Query = append(ss[1].Query, "wr: Wr", "wrArg(a: [Int!]!, b: [[Int]], c: InW): Int")
		ss[1].Extra = append(ss[1].Extra, "input InW { a: [Int!]! b: [[Int!]] c: [InW] }")
		return ss
	}, false},
	{"ts-defaults", func(ss []*SvcSpec) []*SvcSpec {
		ss[0].Query = append(ss[0].Query, `defs(i: Int = 5, f: Float = 1.5, s: String = "a\"b", b: Boolean = true, e: E2 = B, n: Int = null, l: [Int] = [1, 2], o: InD = {x: 1}, id: ID = "x1"): String`)
		ss[0].Extra = append(ss[0].Extra, "enum E2 { A B }", `input InD { x: Int = 3 y: String = "d" z: [String] = ["p", "q"] e: E2 = A b: Boolean = false f: Float = 2.5 }`)
		return ss
	}, false},
	{"ts-descriptions", func(ss []*SvcSpec) []*SvcSpec {
		ss[1].addType("Doc", "", `"field doc" a("arg doc" x: Int): Int`, "\"\"\"\nmulti\nline \\\"\\\"\\\" doc\n\"\"\" b: String")
		ss[1].Query = append(ss[1].Query, "doc: Doc")
		ss[1].Extra = append(ss[1].Extra, `"enum doc" enum DE { "value doc" X Y }`, `"input doc" input DI { "input field doc" a: Int }`, `"scalar doc" scalar DS`)
		return ss
	}, false},
	{"ts-deprecated", func(ss []*SvcSpec) []*SvcSpec {
		ss[0].addType("Dep", "", `old: String @deprecated(reason: "use new")`, "older: Int @deprecated", "new: String")
		ss[0].Query = append(ss[0].Query, "dep: Dep", `oldRoot: Int @deprecated(reason: "gone")`)
		ss[0].Extra = append(ss[0].Extra, `enum DepE { KEEP DROP @deprecated(reason: "bye") }`)
		return ss
	}, false},
	{"ts-directive", func(ss []*SvcSpec) []*SvcSpec {
		ss[1].Extra = append(ss[1].Extra, `directive @tag(name: String! = "x", n: Int, l: [String!]) on FIELD_DEFINITION | OBJECT | ENUM_VALUE`, `directive @flag on FIELD | QUERY`)
		ss[1].addType("Tagged", "", `t: Int @tag(name: "q")`)
		ss[1].Query = append(ss[1].Query, "tagged: Tagged")
		return ss
	}, false},
	{"ts-interface-chain", func(ss []*SvcSpec) []*SvcSpec {
		ss[1].addType("IBase", "interface", "a: Int")
		ss[1].addType("IMid", "interface IBase", "a: Int", "b: Int")
		ss[1].addType("ILeaf", "IMid & IBase", "a: Int", "b: Int", "c: Int")
		ss[1].Query = append(ss[1].Query, "leafs: [IBase]")
		return ss
	}, false},
	{"memberless-interface", func(ss []*SvcSpec) []*SvcSpec {
		ss[1].addType("Lonely", "interface", "x: Int")
		ss[1].Query = append(ss[1].Query, "lonely: Lonely")
		return ss
	}, false},
}

type DataAtom struct {
	Name  string
	Apply func(d *DataOpts)
}

// NamedDataAtoms can be asked for by name only (no enumeration includes them)
var NamedDataAtoms = []DataAtom{
	// lists of 150 different entities: more lookups on one level than any round number a batch might be cut at
	{"data-len150-distinct", func(d *DataOpts) { d.ListLen = 150; d.Pool = 211 }},
}

var DataAtoms = []DataAtom{
	{"data-empty-root-list", func(d *DataOpts) { d.EmptyRootList = true }},
	{"data-dup-in-list", func(d *DataOpts) { d.DupInList = true }},
	{"data-null-entries", func(d *DataOpts) { d.NullEntries = true }},
	{"data-null-refs", func(d *DataOpts) { d.NullRefs = true }},
	{"data-only-null-entries", func(d *DataOpts) { d.NullEntries = true; d.OnlyNullEntries = true }},
	{"data-len1", func(d *DataOpts) { d.ListLen = 1 }},
	{"data-len5", func(d *DataOpts) { d.ListLen = 5 }},
	{"data-len20", func(d *DataOpts) { d.ListLen = 20 }},
	{"data-id-hash", func(d *DataOpts) { d.WeirdIDs = "hash" }},
	{"data-id-colon", func(d *DataOpts) { d.WeirdIDs = "colon" }},
	{"data-id-dot", func(d *DataOpts) { d.WeirdIDs = "dot" }},
	{"data-id-space", func(d *DataOpts) { d.WeirdIDs = "space" }},
	{"data-id-numeric", func(d *DataOpts) { d.WeirdIDs = "numeric" }},
}

type WorldDesc struct {
	Base  string   // "W0" | "Wmin"
	Atoms []string // world atoms then data atoms, by name
}

func (d WorldDesc) Name() string {
	n := d.Base
	for _, a := range d.Atoms {
		n += "+" + a
	}
	return n
}

func worldAtomByName(n string) *WorldAtom {
	for i := range WorldAtoms {
		if WorldAtoms[i].Name == n {
			return &WorldAtoms[i]
		}
	}
	for i := range MergeAtoms {
		if MergeAtoms[i].Name == n {
			return &MergeAtoms[i]
		}
	}
	return nil
}

// MergeAtoms are schema shapes the merger accepts but no gateway can execute across services
// (a plain, non-Node type whose fields are spread over services): they take part in the
// merge checks (C03, C04, C05) only.
var MergeAtoms = []WorldAtom{
	{"plain-type-disjoint-fields", func(ss []*SvcSpec) []*SvcSpec {
		ss[0].addType("Settings", "", "theme: String")
		ss[0].Query = append(ss[0].Query, "settings0: Settings")
		ss[1].addType("Settings", "", "locale: String", "zone: String")
		ss[1].Query = append(ss[1].Query, "settings1: Settings")
		return ss
	}, false},
	{"plain-type-disjoint-fields-fieldless-root", func(ss []*SvcSpec) []*SvcSpec {
		// the second declarer reaches the type through no root field of its own
		ss[0].addType("Prefs", "", "theme: String")
		ss[0].Query = append(ss[0].Query, "prefs0: Prefs")
		ss[1].addType("Prefs", "", "locale: String")
		return ss
	}, false},
	{"shared-interface-implements-node", func(ss []*SvcSpec) []*SvcSpec {
		// an interface which itself implements Node, declared (with its implementing type) by two services with fields of their own
		ss[0].addType("Res", "interface Node", "id: ID!", "label: String")
		ss[0].addType("ResA", "Node & Res", "label: String")
		ss[0].Query = append(ss[0].Query, "resA0: ResA")
		ss[1].addType("Res", "interface Node", "id: ID!", "size: Int")
		ss[1].addType("ResA", "Node & Res", "size: Int")
		ss[1].Query = append(ss[1].Query, "resA1: Res")
		return ss
	}, false},
	{"directives-named-like-draft-spec-ones", func(ss []*SvcSpec) []*SvcSpec {
		// a service's own definitions of directives that newer specification drafts (not the pinned gqlparser) know
		ss[1].Extra = append(ss[1].Extra, "directive @defer(label: String, if: Boolean = true) on FRAGMENT_SPREAD | INLINE_FRAGMENT", "directive @oneOf on INPUT_OBJECT")
		return ss
	}, false},
	{"plain-type-disjoint-fields-third-service", func(ss []*SvcSpec) []*SvcSpec {
		ss[0].addType("Opts", "", "a: String")
		ss[0].Query = append(ss[0].Query, "opts0: Opts")
		ss[1].addType("Opts", "", "b: String")
		s2 := newSvc(fmt.Sprintf("http://s%d", len(ss)))
		s2.addType("Opts", "", "c: String")
		s2.Query = []string{"visits: Int"}
		return append(ss, s2)
	}, false},
}

// EnumMergeWorlds is EnumWorlds over the world atoms plus the merge-only atoms.
func EnumMergeWorlds(bases []string, dw int) []WorldDesc {
	saved := WorldAtoms
	WorldAtoms = append(append([]WorldAtom{}, WorldAtoms...), MergeAtoms...)
	defer func() { WorldAtoms = saved }()
	return EnumWorlds(bases, dw, 0)
}

func dataAtomByName(n string) *DataAtom {
	for i := range DataAtoms {
		if DataAtoms[i].Name == n {
			return &DataAtoms[i]
		}
	}
	for i := range NamedDataAtoms {
		if NamedDataAtoms[i].Name == n {
			return &NamedDataAtoms[i]
		}
	}
	return nil
}

// Build instantiates a world description.
func (d WorldDesc) Build() (*World, error) {
	var ss []*SvcSpec
	switch d.Base {
	case "W0":
		ss = baseW0()
	case "Wmin":
		ss = baseWmin()
	case "Wdeep":
		ss = baseWdeep()
	case "Wfan":
		ss = baseWfan()
	case "Wnodex":
		ss = baseWnodex()
	case "Wroots":
		ss = baseWroots()
	default:
		return nil, fmt.Errorf("unknown base %s", d.Base)
	}
	var data DataOpts
	for _, a := range d.Atoms {
		if wa := worldAtomByName(a); wa != nil {
			ss = wa.Apply(ss)
		} else if da := dataAtomByName(a); da != nil {
			da.Apply(&data)
		} else {
			return nil, fmt.Errorf("unknown atom %s", a)
		}
	}
	atoms := append([]string{"base-" + d.Base}, d.Atoms...)
	return BuildWorld(d.Name(), atoms, ss, data)
}

// EnumWorlds lists base + <=dw world atoms + <=dd data atoms, simplest first.
func EnumWorlds(bases []string, dw, dd int) []WorldDesc {
	var out []WorldDesc
	for _, b := range bases {
		var was []string
		for _, a := range WorldAtoms {
			if a.NeedW0 && b != "W0" {
				continue
			}
			was = append(was, a.Name)
		}
		var das []string
		for _, a := range DataAtoms {
			das = append(das, a.Name)
		}
		for _, ws := range subsets(was, dw) {
			for _, ds := range subsets(das, dd) {
				out = append(out, WorldDesc{Base: b, Atoms: append(append([]string{}, ws...), ds...)})
			}
		}
	}
	sort.SliceStable(out, func(i, j int) bool { return len(out[i].Atoms) < len(out[j].Atoms) })
	return out
}

// subsets returns all subsets of xs with at most k elements (in order, smallest first).
func subsets(xs []string, k int) [][]string {
	out := [][]string{{}}
	var rec func(start int, cur []string)
	rec = func(start int, cur []string) {
		if len(cur) >= k {
			return
		}
		for i := start; i < len(xs); i++ {
			nx := append(append([]string{}, cur...), xs[i])
			out = append(out, nx)
			rec(i+1, nx)
		}
	}
	rec(0, nil)
	sort.SliceStable(out, func(i, j int) bool { return len(out[i]) < len(out[j]) })
	return out
}
