package a

import (
	"bytes"
	"encoding/json"
	"fmt"
	"mime/multipart"
	"net/http"
	"net/http/httptest"
	"sort"
	"strconv"
	"strings"
	"time"
)

// C07: every HTTP request gets a well-formed response; none can crash the gateway.

const c07ValidQ = "{ n1s { id name phone } }"
const c07InvalidQ = "{ nope }"

var c07Alphabet = []string{"[", "]", "{", "}", `"`, ":", ",", " ", "a", "1", "n"}

// expectation: 422, 200 or 0 (either)
func c07ExpectJSON(body []byte) int {
	var v interface{}
	dec := json.NewDecoder(bytes.NewReader(body))
	if err := dec.Decode(&v); err != nil {
		return 422
	}
	if dec.More() {
		return 422
	}
	// trailing garbage after a complete value
	rest, _ := readAll(dec.Buffered())
	if strings.TrimSpace(string(rest)) != "" {
		return 422
	}
	if hasDupOrOddKeys(body) {
		return 0
	}
	okReq := func(x interface{}) int {
		m, ok := x.(map[string]interface{})
		if !ok {
			return 422
		}
		q, ok := m["query"].(string)
		if !ok || q == "" {
			return 422
		}
		if vv, has := m["variables"]; has && vv != nil {
			if _, ok := vv.(map[string]interface{}); !ok {
				return 422
			}
		}
		if on, has := m["operationName"]; has && on != nil {
			if _, ok := on.(string); !ok {
				return 422
			}
		}
		return 200
	}
	switch x := v.(type) {
	case map[string]interface{}:
		return okReq(x)
	case []interface{}:
		for _, e := range x {
			if okReq(e) != 200 {
				return 422
			}
		}
		return 200
	}
	return 422
}

func readAll(r interface{ Read([]byte) (int, error) }) ([]byte, error) {
	var out []byte
	buf := make([]byte, 512)
	for {
		n, err := r.Read(buf)
		out = append(out, buf[:n]...)
		if err != nil {
			return out, nil
		}
	}
}

// hasDupOrOddKeys: duplicate keys or keys differing from the canonical ones only by case
// (Go's decoder matches case-insensitively; the statement is silent) => grey zone.
func hasDupOrOddKeys(body []byte) bool {
	dec := json.NewDecoder(bytes.NewReader(body))
	type frame struct {
		obj  bool
		keys map[string]bool
		key  bool
	}
	var st []*frame
	for {
		t, err := dec.Token()
		if err != nil {
			return false
		}
		switch x := t.(type) {
		case json.Delim:
			switch x {
			case '{':
				if len(st) > 0 && st[len(st)-1].obj {
					st[len(st)-1].key = true
				}
				st = append(st, &frame{obj: true, keys: map[string]bool{}, key: true})
			case '[':
				if len(st) > 0 && st[len(st)-1].obj {
					st[len(st)-1].key = true
				}
				st = append(st, &frame{})
			case '}', ']':
				st = st[:len(st)-1]
			}
		default:
			if len(st) > 0 && st[len(st)-1].obj {
				f := st[len(st)-1]
				if f.key {
					k, _ := x.(string)
					lk := strings.ToLower(k)
					if f.keys[lk] {
						return true
					}
					f.keys[lk] = true
					if k != lk && (lk == "query" || lk == "variables" || lk == "operationname") && k != "operationName" {
						return true
					}
					if lk == "operationname" && k != "operationName" {
						return true
					}
					f.key = false
				} else {
					f.key = true
				}
			}
		}
	}
}

// jsonTrees enumerates all JSON texts with exactly n nodes.
func jsonTrees(n int, memo map[int][]string) []string {
	if v, ok := memo[n]; ok {
		return v
	}
	var out []string
	if n == 1 {
		out = []string{"null", "true", "1", `""`, strconv.Quote(c07ValidQ), strconv.Quote(c07InvalidQ), "[]", "{}"}
		memo[n] = out
		return out
	}
	keys := []string{"query", "variables", "operationName", "x"}
	// arrays: children sizes summing to n-1
	var parts func(total, maxParts int) [][]int
	parts = func(total, maxParts int) [][]int {
		if total == 0 {
			return [][]int{{}}
		}
		if maxParts == 0 {
			return nil
		}
		var r [][]int
		for first := 1; first <= total; first++ {
			for _, rest := range parts(total-first, maxParts-1) {
				r = append(r, append([]int{first}, rest...))
			}
		}
		return r
	}
	var combos func(sizes []int) [][]string
	combos = func(sizes []int) [][]string {
		if len(sizes) == 0 {
			return [][]string{{}}
		}
		var r [][]string
		for _, h := range jsonTrees(sizes[0], memo) {
			for _, t := range combos(sizes[1:]) {
				r = append(r, append([]string{h}, t...))
			}
		}
		return r
	}
	for _, p := range parts(n-1, 3) {
		for _, c := range combos(p) {
			out = append(out, "["+strings.Join(c, ",")+"]")
		}
	}
	// objects: distinct keys in canonical order
	var keysets func(k, start int) [][]string
	keysets = func(k, start int) [][]string {
		if k == 0 {
			return [][]string{{}}
		}
		var r [][]string
		for i := start; i < len(keys); i++ {
			for _, rest := range keysets(k-1, i+1) {
				r = append(r, append([]string{keys[i]}, rest...))
			}
		}
		return r
	}
	for _, p := range parts(n-1, 3) {
		for _, ks := range keysets(len(p), 0) {
			for _, c := range combos(p) {
				var es []string
				for i := range ks {
					es = append(es, strconv.Quote(ks[i])+":"+c[i])
				}
				out = append(out, "{"+strings.Join(es, ",")+"}")
			}
		}
	}
	memo[n] = out
	return out
}

type c07Req struct {
	Method      string `json:"method"`
	ContentType string `json:"content_type"`
	Body        string `json:"body"`
	Expect      int    `json:"expect_status"` // 0 = either
	Kind        string `json:"kind"`
	WantErrors  bool   `json:"-"`
}

// multipart helpers ---------------------------------------------------------------------

type mpFile struct {
	Key, Name, Content string
	Omit               bool
}

func buildMultipart(operations string, mapField *string, files []mpFile) (string, string) {
	var b bytes.Buffer
	w := multipart.NewWriter(&b)
	w.SetBoundary("XBOUNDARYX")
	if operations != "\x00" {
		w.WriteField("operations", operations)
	}
	if mapField != nil {
		w.WriteField("map", *mapField)
	}
	for _, f := range files {
		if f.Omit {
			continue
		}
		fw, _ := w.CreateFormFile(f.Key, f.Name)
		fw.Write([]byte(f.Content))
	}
	w.Close()
	return b.String(), w.FormDataContentType()
}

var c07Paths = []string{"", "variables", "variables.f", "variables.o.f", "variables.l.0", "variables.l.-1", "variables.l.9", "variables.l.x", "variables.l",
	"0.variables.f", "9.variables.f", "0", "x.variables.f", "variables.s.f", "variables.missing", "1.variables.f", "variables.o.fs.0", "variables.f.x",
	"variables.l.18446744073709551615", "18446744073709551615.variables.f", "variables.l.+1", "variables.l.4294967296"}

const c07UploadQ = "mutation ($f: Upload, $o: UpIn, $l: [Upload], $s: String) { upload(f: $f) uploadMany(fs: $l) uploadIn(in: $o) mkN1(name: $s) { id } }"

func c07Vars() map[string]interface{} {
	return map[string]interface{}{"f": nil, "o": map[string]interface{}{"f": nil, "fs": []interface{}{nil, nil}, "s": "str"}, "l": []interface{}{nil, nil}, "s": "str"}
}

// pathOK decides whether a multipart map path is well formed for the given operations
// (batch or single): it must address an existing null position of the variables tree.
// returns 200 (ok), 422 (malformed), 0 (grey)
func pathOK(path string, batch bool, nops int) int {
	parts := strings.Split(path, ".")
	if batch {
		idx, err := strconv.Atoi(parts[0])
		if err != nil || idx < 0 || idx >= nops {
			return 422
		}
		parts = parts[1:]
	}
	if len(parts) < 2 || parts[0] != "variables" {
		return 422
	}
	var cur interface{} = c07Vars()
	for _, p := range parts[1:] {
		switch c := cur.(type) {
		case map[string]interface{}:
			v, ok := c[p]
			if !ok {
				return 422
			}
			cur = v
		case []interface{}:
			i, err := strconv.Atoi(p)
			if err != nil || i < 0 || i >= len(c) {
				return 422
			}
			cur = c[i]
		default:
			return 422
		}
	}
	if cur != nil {
		return 422 // placeholder must be null (spec); a rejection is the only sensible answer
	}
	return 200
}

func c07Multipart() []c07Req {
	var out []c07Req
	single, _ := json.Marshal(map[string]interface{}{"query": c07UploadQ, "variables": c07Vars()})
	batch, _ := json.Marshal([]interface{}{map[string]interface{}{"query": c07UploadQ, "variables": c07Vars()}, map[string]interface{}{"query": c07UploadQ, "variables": c07Vars()}})
	for _, ops := range []struct {
		s     string
		batch bool
		n     int
	}{{string(single), false, 1}, {string(batch), true, 2}} {
		add := func(kind string, mapField *string, files []mpFile, expect int) {
			body, ct := buildMultipart(ops.s, mapField, files)
			out = append(out, c07Req{Method: "POST", ContentType: ct, Body: body, Expect: expect, Kind: kind})
		}
		add("multipart map absent", nil, nil, 422)
		nj := "not json"
		add("multipart map not json", &nj, nil, 422)
		em := "{}"
		add("multipart map empty", &em, nil, 422)
		for _, wrong := range []string{`[]`, `{"0":"variables.f"}`, `{"0":[1]}`, `null`, `{"0":null}`, `{"0":[]}`} {
			w := wrong
			exp := 422
			if w == `{"0":[]}` || w == `{"0":null}` || w == "null" {
				exp = 0
			}
			add("multipart map wrong shape "+w, &w, []mpFile{{Key: "0", Name: "a.txt", Content: "A"}}, exp)
		}
		// one file, one or two paths
		for i, p1 := range c07Paths {
			for j := -1; j < len(c07Paths); j++ {
				if j >= 0 && j <= i {
					continue
				}
				paths := []string{p1}
				if j >= 0 {
					paths = append(paths, c07Paths[j])
				}
				exp := 200
				seen := map[string]bool{}
				for _, p := range paths {
					if seen[p] {
						exp = 0
					}
					seen[p] = true
					switch pathOK(p, ops.batch, ops.n) {
					case 422:
						exp = 422
					case 0:
						if exp == 200 {
							exp = 0
						}
					}
				}
				mb, _ := json.Marshal(map[string][]string{"0": paths})
				ms := string(mb)
				add("multipart 1 file paths "+strings.Join(paths, "|"), &ms, []mpFile{{Key: "0", Name: "a.txt", Content: "A"}}, exp)
				if j < 0 {
					add("multipart file part missing, path "+p1, &ms, []mpFile{{Key: "0", Name: "a.txt", Content: "A", Omit: true}}, 422)
				}
			}
		}
		// two files
		for _, p1 := range c07Paths {
			for _, p2 := range c07Paths {
				if p1 == p2 {
					continue
				}
				exp := 200
				for _, p := range []string{p1, p2} {
					if pathOK(p, ops.batch, ops.n) == 422 {
						exp = 422
					}
				}
				mb, _ := json.Marshal(map[string][]string{"0": {p1}, "1": {p2}})
				ms := string(mb)
				add("multipart 2 files "+p1+" & "+p2, &ms, []mpFile{{Key: "0", Name: "a.txt", Content: "A"}, {Key: "1", Name: "b.txt", Content: "B"}}, exp)
			}
		}
	}
	// operations field problems
	for _, ops := range []string{"\x00", "", "not json", "null", "[]", "[null]", `{"query":""}`, `{"query":1}`} {
		ms := `{"0":["variables.f"]}`
		body, ct := buildMultipart(ops, &ms, []mpFile{{Key: "0", Name: "a.txt", Content: "A"}})
		exp := 422
		out = append(out, c07Req{Method: "POST", ContentType: ct, Body: body, Expect: exp, Kind: "multipart operations=" + strconv.Quote(ops)})
	}
	// multipart without / with broken boundary
	out = append(out, c07Req{Method: "POST", ContentType: "multipart/form-data", Body: "x", Expect: 422, Kind: "multipart no boundary"})
	out = append(out, c07Req{Method: "POST", ContentType: "multipart/form-data; boundary=zzz", Body: "garbage", Expect: 422, Kind: "multipart garbage body"})
	return out
}

func c07ContentTypes() []c07Req {
	var out []c07Req
	valid, _ := json.Marshal(map[string]interface{}{"query": c07ValidQ})
	for _, ct := range []string{"application/json", "text/plain", "", "application/json; charset=utf-8", "text/plain;charset=x", "application/graphql", "application/x-www-form-urlencoded",
		"text/html", ";", "application/json;", "APPLICATION/JSON", "multipart/mixed; boundary=x", " application/json"} {
		exp := 422
		base := strings.SplitN(ct, ";", 2)[0]
		switch base {
		case "application/json", "text/plain", "":
			exp = 200
		case "APPLICATION/JSON", " application/json":
			exp = 0 // media types are case-insensitive per RFC; the statement is silent
		}
		out = append(out, c07Req{Method: "POST", ContentType: ct, Body: string(valid), Expect: exp, Kind: "content type " + strconv.Quote(ct)})
	}
	return out
}

func c07Jobs(tier string) []string {
	jobs := []string{"ctypes", "batches", "multipart", "documents", "vartypes", "sizes", "json:1", "json:2", "json:3", "json:4", "json:5", "rawshort"}
	for _, a := range c07Alphabet {
		for _, b := range c07Alphabet {
			jobs = append(jobs, "raw5:"+a+b)
		}
	}
	worlds := []string{"W0+memberless-interface", "W0+union-list", "W0+interface-value", "W0+node-typed-field", "Wmin+memberless-interface", "W0+interface-entities",
		"W0+union-single", "W0+root-list-of-lists", "W0+entity-node-typed-field", "W0+root-custom-scalar", "W0+subscription-roots"}
	for _, w := range worlds {
		jobs = append(jobs, "corner:"+w+"|e0p|plainK3")
	}
	if tier == "thorough" {
		jobs = append(jobs, "json:6")
		for _, a := range c07Alphabet {
			for _, b := range c07Alphabet {
				for _, c := range c07Alphabet {
					jobs = append(jobs, "raw6:"+a+b+c)
				}
			}
		}
		for _, w := range EnumWorlds([]string{"Wmin", "W0"}, 1, 0) {
			jobs = append(jobs, "corner:"+w.Name()+"|s0p|plainK4")
		}
	}
	return jobs
}

func c07Check(status int, body []byte, exp int, batchBody bool, reqBody []byte) []string {
	set := map[string]bool{}
	if status != 200 && status != 422 {
		set[fmt.Sprintf("status %d (only 200 and 422 are allowed)", status)] = true
	}
	if exp != 0 && status != exp && (status == 200 || status == 422) {
		set[fmt.Sprintf("status %d where %d is required", status, exp)] = true
	}
	var v interface{}
	if err := json.Unmarshal(body, &v); err != nil {
		set["response body is not JSON"] = true
	} else {
		check := func(x interface{}) {
			m, ok := x.(map[string]interface{})
			if !ok {
				set["response element is not an object"] = true
				return
			}
			_, hd := m["data"]
			_, he := m["errors"]
			if !hd && !he {
				set["response carries neither data nor errors"] = true
			}
		}
		switch x := v.(type) {
		case []interface{}:
			for _, e := range x {
				check(e)
			}
			if batchBody {
				var in []interface{}
				if json.Unmarshal(reqBody, &in) == nil && len(in) != len(x) {
					set["batch answered with a different number of results"] = true
				}
			}
		default:
			check(x)
		}
	}
	out := make([]string, 0, len(set))
	for k := range set {
		out = append(out, k)
	}
	sort.Strings(out)
	return out
}

func init() {
	Props["C07"] = &Prop{
		ID:    "C07",
		Level: "exploration",
		Rule: "grammars enumerated exhaustively: (raw) every string of length <=5 (thorough <=6) over the alphabet [ ] { } \" : , space a 1 n as application/json body; (json) every JSON tree with <=5 (6) nodes over " +
			"{null,true,1,\"\",valid query,invalid query,[],{}} with object keys {query,variables,operationName,x}; (ctypes) content types; (batches) every batch of length <=3 over {valid, invalid, introspection, ambiguous document, mutation}; (multipart) operations single/batch x maps with <=2 files x <=2 paths over a 22-path alphabet, " +
			"missing file parts, malformed map/operations; (corner) every valid operation with <=3 fields on corner-case schemas; oracle: process alive, handler returned, JSON body with data and/or errors, status in {200,422} " +
			"(documents) 43 odd GraphQL documents (only ignored tokens, only a fragment, several anonymous or equally named operations, trailing garbage, BOM, type-system definitions, other operation kinds) x 5 operationName values, alone and in a batch next to a valid operation; (vartypes) 15 valid documents with one variable (introspection arguments, @skip/@include on fields, fragments and the root __typename, arguments of queries and mutations) x 18 JSON values of every shape for it, alone and in a batch; (sizes) undecodable bodies, padded valid requests, huge invalid names and huge answers from 1 KiB to 1.1 MiB, each followed by the canonical request; " +
			"with a three-valued reference (must-422 / must-200 / either), and a canonical follow-up request still answered correctly; non-trivial = the request reached decoding",
		Assumptions: []string{"POST only (other methods are routed elsewhere by Handler)", "grey zone (either status): duplicate or case-variant keys, case-variant media types, duplicate map paths",
			"the three-valued status reference is harness code (c07ExpectJSON, pathOK)"},
		Jobs: c07Jobs,
		Budget: func(tier string) time.Duration {
			if tier == "quick" {
				return 60 * time.Second
			}
			return 10 * time.Minute
		},
		RunJob: func(tier, job string, from int, em *Emitter) {
			worldName := "W0+upload-roots"
			if strings.HasPrefix(job, "corner:") {
				c07Corner(tier, strings.TrimPrefix(job, "corner:"), from, em)
				return
			}
			wd := WorldDesc{Base: "W0", Atoms: []string{"upload-roots"}}
			w, err := wd.Build()
			if err != nil {
				em.GenError(err.Error())
				return
			}
			f, err := NewFed(w, DefaultConfig)
			if err != nil {
				em.GenError(err.Error())
				return
			}
			var reqs []c07Req
			switch {
			case job == "ctypes":
				reqs = c07ContentTypes()
			case job == "multipart":
				reqs = c07Multipart()
			case job == "batches":
				// every batch of length <=3 over five kinds of element
				elems := []string{c07ValidQ, c07InvalidQ, "{ __schema { queryType { name } } }", "query A { echo } query B { echo }", "mutation { incr(by: 1) }"}
				var rec func(cur []string)
				rec = func(cur []string) {
					if len(cur) > 0 {
						var l []interface{}
						for _, q := range cur {
							l = append(l, map[string]interface{}{"query": q})
						}
						b, _ := json.Marshal(l)
						reqs = append(reqs, c07Req{Method: "POST", ContentType: "application/json", Body: string(b), Expect: 200, Kind: "batch"})
					}
					if len(cur) == 3 {
						return
					}
					for _, e := range elems {
						rec(append(append([]string{}, cur...), e))
					}
				}
				rec(nil)
			case job == "documents":
				// well-formed request objects around odd GraphQL documents: nothing but ignored tokens,
				// only a fragment, several anonymous / equally named operations, trailing garbage, a BOM, other
				// operation kinds - each alone, in a batch next to a valid operation, with every operationName
				docs := []string{" ", "\n", "\t", "#", "# only a comment\n", ",", ",,,", "\ufeff", "fragment F on Query { echo }", "{", "}", "{ }", "query", "query Q", "query Q { }",
					"{ echo } # trailing comment", "{ echo } }", "{ echo } { echo }", "query A { echo } query A { echo }", "query A { echo } fragment F on Query { echo }",
					"\ufeff{ echo }", "subscription { nope }", "mutation { nope }", "mutation", "{ echo(x: ) }", "{ ...F }", "{ ... on Query { echo } }", "query ($v: Int) { echo }",
					"query ($v: Nope) { echo }", "{ echo @skip }", "{ echo @skip(if: true) }", "{ __typename }", "{ __typename @skip(if: true) }", "extend type Query { x: Int }", "type T { x: Int }", "schema { query: Query }",
					`"a string"`, "null", "123", "[]", "{ echo: echo: echo }", "{ a: }", "query { echo } mutation { incr(by: 1) }"}
				for _, d := range docs {
					for _, on := range []string{"-", "", "Q", "A", "F"} {
						m := map[string]interface{}{"query": d}
						if on != "-" {
							m["operationName"] = on
						}
						b, _ := json.Marshal(m)
						reqs = append(reqs, c07Req{Method: "POST", ContentType: "application/json", Body: string(b), Expect: 200, Kind: "document"})
						bb, _ := json.Marshal([]interface{}{map[string]interface{}{"query": c07ValidQ}, m})
						reqs = append(reqs, c07Req{Method: "POST", ContentType: "application/json", Body: string(bb), Expect: 200, Kind: "batch"})
					}
				}
			case job == "vartypes":
				// valid documents whose variables carry JSON values of every shape, fitting the declared type or not
				// (the gateway validates documents, nobody validates the values): gateway-answered fields, directives,
				// arguments of service fields, alone and mixed
				docs := []string{
					`query ($v: Boolean) { __type(name: "N1") { fields(includeDeprecated: $v) { name } } }`,
					`query ($v: Boolean) { __type(name: "N1") { enumValues(includeDeprecated: $v) { name } } }`,
					`query ($v: Boolean) { __schema { types { fields(includeDeprecated: $v) { name } enumValues(includeDeprecated: $v) { name } } } }`,
					`query ($v: Boolean = true) { __type(name: "N1") { fields(includeDeprecated: $v) { name } } echo }`,
					`query ($v: String!) { __type(name: $v) { name kind } }`,
					`query ($v: String!) { echo __type(name: $v) { name } }`,
					`query ($v: Boolean!) { echo @skip(if: $v) }`,
					`query ($v: Boolean!) { echo @include(if: $v) n1s { name @skip(if: $v) phone @include(if: $v) } }`,
					`query ($v: Boolean!) { __typename @skip(if: $v) echo }`,
					`query ($v: Boolean!) { ... @include(if: $v) { echo } }`,
					`query ($v: Int) { echo(x: $v) }`,
					`query ($v: Int = 3) { echo(x: $v) n1s { calc(x: $v) } }`,
					`query ($v: ID!) { node(id: $v) { id } }`,
					`mutation ($v: Int!) { incr(by: $v) }`,
					`mutation ($v: String) { mkN1(name: $v) { id phone } }`,
				}
				vals := []string{"-", "null", "true", "false", "0", "1", "-1", "1.5", "1e100", `""`, `"true"`, `"N1"`, "[]", "[true]", `["N1"]`, "{}", `{"a":1}`, "[[1]]"}
				for _, d := range docs {
					for _, v := range vals {
						body := `{"query":` + jsonString(d) + `,"variables":{"v":` + v + `}}`
						if v == "-" {
							body = `{"query":` + jsonString(d) + `,"variables":{}}`
						}
						reqs = append(reqs, c07Req{Method: "POST", ContentType: "application/json", Body: body, Expect: 200, Kind: "vartypes"})
						reqs = append(reqs, c07Req{Method: "POST", ContentType: "application/json", Body: `[{"query":` + jsonString(c07ValidQ) + `},` + body + `]`, Expect: 200, Kind: "batch"})
					}
				}
			case job == "sizes":
				// size thresholds (pooled / fixed-size buffers): large undecodable bodies, large valid requests, large answers
				for _, n := range []int{1 << 10, 4 << 10, 33 << 10, 70 << 10, 300 << 10, 1100 << 10} {
					reqs = append(reqs, c07Req{Method: "POST", ContentType: "application/json", Body: strings.Repeat("a", n), Expect: 422, Kind: "size"})
					reqs = append(reqs, c07Req{Method: "POST", ContentType: "application/json", Body: `{"query":"` + strings.Repeat(" ", n) + c07ValidQ + `"}`, Expect: 200, Kind: "size"})
					reqs = append(reqs, c07Req{Method: "POST", ContentType: "application/json", Body: `{"query":"{ nope` + strings.Repeat("x", n) + ` }"}`, Expect: 200, Kind: "size"})
					var al strings.Builder
					for i := 0; al.Len() < n/4; i++ {
						fmt.Fprintf(&al, " a%d: echo", i)
					}
					reqs = append(reqs, c07Req{Method: "POST", ContentType: "application/json", Body: `{"query":"{` + al.String() + ` }"}`, Expect: 200, Kind: "size"})
					reqs = append(reqs, c07Req{Method: "POST", ContentType: "application/json", Body: `{"query":"` + c07ValidQ + `"}`, Expect: 200, Kind: "size"})
				}
			case strings.HasPrefix(job, "json:"):
				n, _ := strconv.Atoi(job[5:])
				for _, t := range jsonTrees(n, map[int][]string{}) {
					reqs = append(reqs, c07Req{Method: "POST", ContentType: "application/json", Body: t, Expect: c07ExpectJSON([]byte(t)), Kind: "json"})
				}
			case job == "rawshort":
				var gen func(prefix string, n int)
				gen = func(prefix string, n int) {
					reqs = append(reqs, c07Req{Method: "POST", ContentType: "application/json", Body: prefix, Expect: c07ExpectJSON([]byte(prefix)), Kind: "raw"})
					if n == 0 {
						return
					}
					for _, a := range c07Alphabet {
						gen(prefix+a, n-1)
					}
				}
				gen("", 3)
			case strings.HasPrefix(job, "raw"):
				total := int(job[3] - '0')
				prefix := job[5:]
				var gen func(p string)
				gen = func(p string) {
					if len(p) == total {
						reqs = append(reqs, c07Req{Method: "POST", ContentType: "application/json", Body: p, Expect: c07ExpectJSON([]byte(p)), Kind: "raw"})
						return
					}
					for _, a := range c07Alphabet {
						gen(p + a)
					}
				}
				gen(prefix)
			}
			follow := Case{Q: c07ValidQ, Vars: map[string]interface{}{}}
			for i := from; i < len(reqs); i++ {
				rq := reqs[i]
				atoms := []string{"grammar-" + strings.SplitN(job, ":", 2)[0]}
				if rq.Kind != "json" && rq.Kind != "raw" {
					atoms = append(atoms, rq.Kind)
				}
				rp := map[string]interface{}{"world": worldName, "request": rq}
				if !em.Begin(i, atoms, rp) {
					if em.Capped() {
						return
					}
					continue
				}
				f.Fakes.Reset()
				r, _ := http.NewRequest(rq.Method, "/", strings.NewReader(rq.Body))
				if rq.ContentType != "" {
					r.Header.Set("Content-Type", rq.ContentType)
				}
				rr := httptest.NewRecorder()
				f.GW.Handler(rr, r)
				if r.MultipartForm != nil {
					r.MultipartForm.RemoveAll() // what net/http's server does after the handler has returned
				}
				sigs := c07Check(rr.Code, rr.Body.Bytes(), rq.Expect, rq.Kind == "batch", []byte(rq.Body))
				if rq.Kind != "batch" && rq.Expect == 200 && rr.Code == 200 && strings.Contains(rq.Body, c07InvalidQ) && !strings.Contains(rq.Body, c07ValidQ) {
					// invalid operation: errors and data null
					var m interface{}
					json.Unmarshal(rr.Body.Bytes(), &m)
					chk := func(x interface{}) {
						if mm, ok := x.(map[string]interface{}); ok {
							if e, _ := mm["errors"].([]interface{}); len(e) == 0 || mm["data"] != nil {
								sigs = append(sigs, "invalid operation not answered with errors and data:null")
							}
						}
					}
					if l, ok := m.([]interface{}); ok {
						for _, x := range l {
							chk(x)
						}
					} else {
						chk(m)
					}
				}
				if rq.Kind == "multipart 1 file paths variables.f" && rr.Code == 200 {
					// the canonical well-formed upload is really executed (not merely answered with validation errors)
					var m map[string]interface{}
					json.Unmarshal(rr.Body.Bytes(), &m)
					if d, _ := m["data"].(map[string]interface{}); d == nil || d["upload"] == nil || len(f.Fakes.Reqs) == 0 {
						sigs = append(sigs, "a well-formed upload was not executed")
					}
				}
				if i%16 == 0 || len(sigs) > 0 || rq.Kind == "size" || rq.Kind == "document" {
					fo := f.Run(follow)
					if fs := c01Sigs(fo); len(fs) > 0 {
						sigs = append(sigs, "follow-up request differs from its reference: "+fs[0])
					}
				}
				if len(sigs) > 0 {
					sort.Strings(sigs)
					em.Fail(atoms, uniq(sigs), rp)
				}
				if i%1777 == 0 {
					em.Sample(rq)
				}
				em.Done(rq.Expect != 422 || len(rq.Body) > 0)
			}
		},
	}
}

func uniq(s []string) []string {
	var out []string
	for i, x := range s {
		if i == 0 || x != s[i-1] {
			out = append(out, x)
		}
	}
	return out
}

// c07Corner: valid operations on corner-case schemas must be answered with a well-formed
// envelope (their data is C01's business).
func c07Corner(tier, job string, from int, em *Emitter) {
	wd, cfg, opset := parseJob(job)
	w, err := wd.Build()
	if err != nil {
		em.GenError(err.Error())
		return
	}
	f, err := NewFed(w, cfg)
	if err != nil {
		em.GenError(err.Error())
		return
	}
	cases := casesFor(f, opset)
	for i := from; i < len(cases); i++ {
		c := cases[i]
		rp := replayCase{World: wd.Name(), Cfg: cfg.String(), Query: c.Q}
		atoms := append([]string{"grammar-corner"}, preAtoms(f, c)...)
		if !em.Begin(i, atoms, rp) {
			if em.Capped() {
				return
			}
			continue
		}
		f.Fakes.Reset()
		status, body := f.Post(caseBody(c), "application/json")
		if sigs := c07Check(status, body, 200, false, nil); len(sigs) > 0 {
			em.Fail(atoms, sigs, rp)
		}
		em.Done(true)
	}
}

func jsonString(x string) string {
	b, _ := json.Marshal(x)
	return string(b)
}
