package a

import (
	"fmt"
	"sort"
	"strconv"
	"strings"
	"time"

	"verif/gqlref"

	"github.com/vektah/gqlparser/v2/ast"
)

// job strings: "<base>[+atom...]|<cfg>|<opset>"
//   cfg:   e|s (merger) 0|1 (hint) p|c (planner) [m<k>]
//   opset: plainK<k> | decK<k> (single decorations over all ops with <=k fields)

func parseCfg(s string) Config {
	c := Config{Merger: "extend", Planner: "plain"}
	if len(s) >= 3 {
		if s[0] == 's' {
			c.Merger = "sanitize"
		}
		c.Hint = s[1] == '1'
		if s[2] == 'c' {
			c.Planner = "cached"
		}
		// optional tokens after the three letters: i<k> (introspection of service k-1 fails at
		// start-up), d (the gateway's default queryer factory), m<n> (downstream batch size)
		rest := s[3:]
		if strings.HasPrefix(rest, "i") && len(rest) >= 2 {
			c.IntroFail = int(rest[1] - '0')
			rest = rest[2:]
		}
		if strings.HasPrefix(rest, "d") {
			c.DefaultFactory = true
			rest = rest[1:]
		}
		if strings.HasPrefix(rest, "m") {
			c.BatchM, _ = strconv.Atoi(rest[1:])
		}
	}
	return c
}

func parseJob(job string) (WorldDesc, Config, string) {
	p := strings.Split(job, "|")
	w := strings.Split(p[0], "+")
	return WorldDesc{Base: w[0], Atoms: w[1:]}, parseCfg(p[1]), p[2]
}

// casesFor enumerates the operation set of a job.
func casesFor(f *Fed, opset string) []Case {
	// "<opset>#s/n" keeps every n-th case starting at s (splits a big job for parallelism)
	if i := strings.Index(opset, "#"); i > 0 {
		var s, n int
		fmt.Sscanf(opset[i+1:], "%d/%d", &s, &n)
		all := casesFor(f, opset[:i])
		var out []Case
		for k, c := range all {
			if n > 0 && k%n == s {
				out = append(out, c)
			}
		}
		return out
	}
	switch {
	case strings.HasPrefix(opset, "plainK"):
		k, _ := strconv.Atoi(opset[6:])
		return append(GenOps(f.Merged, f.W, k), HandOps(f)...)
	case strings.HasPrefix(opset, "queryK"):
		k, _ := strconv.Atoi(opset[6:])
		return GenOps(f.Merged, f.W, k, ast.Query)
	case strings.HasPrefix(opset, "mutK"):
		k, _ := strconv.Atoi(opset[4:])
		out := GenOps(f.Merged, f.W, k, ast.Mutation)
		for _, c := range HandOps(f) {
			if strings.HasPrefix(strings.TrimSpace(c.Q), "mutation") {
				out = append(out, c)
			}
		}
		return out
	case strings.HasPrefix(opset, "decK"):
		k, _ := strconv.Atoi(opset[4:])
		var out []Case
		for _, c := range GenOps(f.Merged, f.W, k) {
			out = append(out, Decorate(f.Merged, c.Q)...)
		}
		return out
	}
	panic("unknown opset " + opset)
}

type replayCase struct {
	World  string                 `json:"world"`
	Cfg    string                 `json:"cfg"`
	Query  string                 `json:"query"`
	Vars   map[string]interface{} `json:"variables,omitempty"`
	OpName string                 `json:"operationName,omitempty"`
	Dec    string                 `json:"decoration,omitempty"`
	Extra  interface{}            `json:"extra,omitempty"`
}

func c01Sigs(o *Obs) []string {
	var sigs []string
	if o.Status != 200 {
		sigs = append(sigs, fmt.Sprintf("status:%d", o.Status))
	}
	if o.BadJSON {
		return append(sigs, "bad-json-response")
	}
	if e, ok := o.Resp["errors"]; ok && e != nil {
		set := map[string]bool{}
		if l, ok := e.([]interface{}); ok {
			for _, x := range l {
				if m, ok := x.(map[string]interface{}); ok {
					set["errors: "+Template(fmt.Sprint(m["message"]))] = true
				}
			}
		}
		if len(set) == 0 {
			set["errors: <malformed>"] = true
		}
		for k := range set {
			sigs = append(sigs, k)
		}
		sort.Strings(sigs)
		if len(sigs) > 3 {
			sigs = sigs[:3]
		}
		return sigs
	}
	pr, _ := gqlref.Prune(o.RefData)
	pg, _ := gqlref.Prune(o.Resp["data"])
	if pg == nil {
		pg = map[string]interface{}{}
	}
	if pr == nil {
		pr = map[string]interface{}{}
	}
	return append(sigs, DiffSigs(pr, pg)...)
}

func caseAtoms(f *Fed, o *Obs) []string {
	atoms := append([]string{}, f.W.Atoms...)
	atoms = append(atoms, f.Cfg.Atoms()...)
	atoms = append(atoms, Features(f.Merged, o.Doc, o.Op, o.Case.Vars, o.Seen)...)
	return atoms
}

// preAtoms are the atoms known before the case runs (for crash attribution the
// features are computed from the parsed operation without data observations).
func preAtoms(f *Fed, c Case) []string {
	atoms := append([]string{}, f.W.Atoms...)
	atoms = append(atoms, f.Cfg.Atoms()...)
	doc, _ := f.load(c.Q)
	if doc != nil {
		if op := pickOp(doc, c.OpName); op != nil {
			atoms = append(atoms, Features(f.Merged, doc, op, c.Vars, nil)...)
		}
	}
	return atoms
}

func c01Jobs(tier string) []string {
	var jobs []string
	add := func(ws []WorldDesc, cfg, opset string) {
		for _, w := range ws {
			jobs = append(jobs, w.Name()+"|"+cfg+"|"+opset)
		}
	}
	bases := []string{"Wmin", "W0"}
	// tiny deep/fan worlds: every operation up to 8 fields
	add(EnumWorlds([]string{"Wdeep"}, 0, 0), "e0p", "plainK8")
	add(EnumWorlds([]string{"Wdeep"}, 0, 0), "s1c", "plainK8")
	add(EnumWorlds([]string{"Wfan"}, 0, 0), "e0p", "plainK6")
	add(EnumWorlds([]string{"Wfan"}, 0, 0), "s1c", "plainK5")
	// null entries need a nullable list to show: paired explicitly in every tier
	for _, w := range []string{"W0+root-nullable-list+data-null-entries", "W0+union-list+data-null-entries", "W0+entity-list-nullable+data-null-entries",
		"W0+interface-value+data-null-entries", "W0+ts-interface-chain+data-null-entries", "W0+root-nullable-list+data-null-refs",
		"W0+root-nullable-list+data-only-null-entries", "W0+union-list+data-only-null-entries", "W0+entity-list-nullable+data-only-null-entries"} {
		jobs = append(jobs, w+"|e0p|plainK4", w+"|s1c|plainK3")
	}
	if tier == "quick" {
		add(EnumWorlds(bases, 0, 0), "e0p", "plainK5")
		add(EnumWorlds(bases, 0, 0), "e0p", "decK4")
		for _, c := range []string{"s1c", "e1p", "e0c", "s0p"} {
			add(EnumWorlds(bases, 0, 0), c, "plainK4")
		}
		add(EnumWorlds(bases, 1, 0)[2:], "e0p", "plainK4")
		add(EnumWorlds(bases, 0, 1)[2:], "e0p", "plainK4")
		add(EnumWorlds([]string{"W0"}, 1, 0)[1:], "s1c", "plainK3")
		add(EnumWorlds([]string{"W0"}, 1, 0)[1:], "e0p", "decK2")
		// abstract types below object fields: decorations (named fragments used twice, aliases, ...) on 3-field operations
		for _, w := range []string{"W0+union-under-object", "W0+entity-node-typed-field", "Wmin+union-under-object", "W0+interface-entities", "W0+value-type-entity-ref"} {
			jobs = append(jobs, w+"|e0p|decK3")
		}
		return jobs
	}
	cfgs := []string{"e0p", "e0c", "e1p", "e1c", "s0p", "s0c", "s1p", "s1c"}
	for _, c := range cfgs {
		add(EnumWorlds(bases, 1, 0), c, "plainK4")
		add(EnumWorlds(bases, 0, 0), c, "decK3")
	}
	add(EnumWorlds(bases, 0, 0), "e0p", "plainK5")
	add(EnumWorlds(bases, 0, 0), "e0p", "decK4")
	add(EnumWorlds(bases, 1, 1), "e0p", "plainK4")
	add(EnumWorlds(bases, 1, 0)[2:], "e0p", "decK3")
	add(EnumWorlds(bases, 2, 0), "e0p", "plainK3")
	add(EnumWorlds(bases, 2, 1), "s1c", "plainK3")
	return jobs
}

func init() {
	Props["C01"] = &Prop{
		ID:    "C01",
		Level: "exploration",
		Rule: "case = (world = base schema set + <=D world/data atoms, gateway configuration, operation); operations are ALL selection trees with <=K fields " +
			"(depth<=4, argument variants) of the merged schema, plus every single decoration (alias kinds, fragments, directives, variables, duplicates, operation name) at every position; " +
			"each case runs through the real Gateway.Handler over evaluating in-memory services and is compared with the single-server reference; non-trivial = reached at least one service",
		Assumptions: []string{
			"reference evaluator harness/gqlref and the canonical data model (world.go) define the expected answer",
			"gqlparser's parser and validator (shared with the gateway) decide validity",
			"tolerated difference: symmetric empty-object pruning P applied to both sides (DESIGN §5.3)",
			"bounded by K, the atom catalogues and deviation bounds listed under coverage.rule / jobs",
		},
		Jobs: c01Jobs,
		Budget: func(tier string) time.Duration {
			if tier == "quick" {
				return 120 * time.Second
			}
			return 14 * time.Minute
		},
		RunJob: func(tier, job string, from int, em *Emitter) {
			wd, cfg, opset := parseJob(job)
			w, err := wd.Build()
			if err != nil {
				em.GenError("world: " + err.Error())
				return
			}
			f, err := NewFed(w, cfg)
			if err != nil {
				em.GenError("gateway construction failed for a world meant to merge: " + err.Error())
				return
			}
			cases := casesFor(f, opset)
			for i := from; i < len(cases); i++ {
				c := cases[i]
				rp := replayCase{World: wd.Name(), Cfg: cfg.String(), Query: c.Q, Vars: c.Vars, OpName: c.OpName, Dec: c.Dec}
				if !em.Begin(i, preAtoms(f, c), rp) {
					if em.Capped() {
						return
					}
					continue
				}
				o := f.Run(c)
				if !o.Valid {
					em.GenError(o.GenError + " :: " + c.Q)
					em.Done(false)
					continue
				}
				if o.RefErr != "" {
					em.GenError("reference: " + o.RefErr + " :: " + c.Q)
					em.Done(false)
					continue
				}
				if sigs := c01Sigs(o); len(sigs) > 0 {
					em.Fail(caseAtoms(f, o), sigs, rp)
				}
				if i%997 == 0 {
					em.Sample(rp)
				}
				em.Done(len(o.Reqs) > 0)
			}
		},
	}
}

// CaseAtoms exposes the semantic atoms of a case (world, configuration, operation features).
func (f *Fed) CaseAtoms(c Case) []string { return preAtoms(f, c) }
