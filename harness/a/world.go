package a

import (
	"fmt"
	"hash/fnv"
	"sort"
	"strings"

	"verif/gqlref"

	"github.com/vektah/gqlparser/v2"
	"github.com/vektah/gqlparser/v2/ast"
)

// ---------------------------------------------------------------------------------------
// Worlds: a set of services (SDL) plus canonical entity data derived from the schemas.

type SvcSpec struct {
	URL    string
	Types  map[string][]string // object/interface type name -> field lines (without id)
	Impl   map[string]string   // type name -> "implements ..." clause ("" = none); Node types have "Node"
	Order  []string            // declaration order of Types
	Query  []string            // root field lines
	Mut    []string
	Sub    []string
	Extra  []string // verbatim definitions (enums, inputs, unions, scalars, directives)
	NoNode bool     // service without Node / node(id:)
	// NodeField, if set, is this service's declaration of the Relay lookup (default: node(id: ID!): Node)
	NodeField string
	// NodeExtra, if set, is a field this service's Node interface declares besides id (every Node type of the service has it)
	NodeExtra string
	// RootPrefix, if set, renames this service's root types (schema { query: <prefix>Query mutation: <prefix>Mutation ... })
	RootPrefix string
}

func (s *SvcSpec) clone() *SvcSpec {
	c := &SvcSpec{URL: s.URL, Types: map[string][]string{}, Impl: map[string]string{}, NoNode: s.NoNode, NodeField: s.NodeField, NodeExtra: s.NodeExtra, RootPrefix: s.RootPrefix}
	for k, v := range s.Types {
		c.Types[k] = append([]string{}, v...)
	}
	for k, v := range s.Impl {
		c.Impl[k] = v
	}
	c.Order = append([]string{}, s.Order...)
	c.Query = append([]string{}, s.Query...)
	c.Mut = append([]string{}, s.Mut...)
	c.Sub = append([]string{}, s.Sub...)
	c.Extra = append([]string{}, s.Extra...)
	return c
}

func (s *SvcSpec) addType(name, impl string, fields ...string) {
	if _, ok := s.Types[name]; !ok {
		s.Order = append(s.Order, name)
		s.Impl[name] = impl
	}
	s.Types[name] = append(s.Types[name], fields...)
}

func implList(impl string) map[string]bool {
	m := map[string]bool{}
	for _, p := range strings.Split(impl, "&") {
		if p = strings.TrimSpace(p); p != "" {
			m[p] = true
		}
	}
	return m
}

func (s *SvcSpec) hasType(name string) bool { _, ok := s.Types[name]; return ok }

func (s *SvcSpec) SDL() string {
	var b strings.Builder
	if !s.NoNode {
		fmt.Fprintf(&b, "interface Node { id: ID! %s }\n", s.NodeExtra)
	}
	for _, t := range s.Order {
		impl := s.Impl[t]
		kw := "type"
		if strings.HasPrefix(impl, "interface") {
			kw = "interface"
			impl = strings.TrimSpace(strings.TrimPrefix(impl, "interface"))
		} else if strings.HasPrefix(impl, "input") {
			kw = "input"
			impl = ""
		}
		fmt.Fprintf(&b, "%s %s", kw, t)
		if impl != "" {
			fmt.Fprintf(&b, " implements %s", impl)
		}
		b.WriteString(" {")
		if kw == "type" && implList(impl)["Node"] {
			b.WriteString(" id: ID!")
			if s.NodeExtra != "" {
				b.WriteString(" " + s.NodeExtra)
			}
		}
		for _, f := range s.Types[t] {
			b.WriteString(" " + f)
		}
		b.WriteString(" }\n")
	}
	q := s.Query
	if !s.NoNode {
		nf := "node(id: ID!): Node"
		if s.NodeField != "" {
			nf = s.NodeField
		}
		q = append([]string{nf}, q...)
	}
	fmt.Fprintf(&b, "type %sQuery { %s }\n", s.RootPrefix, strings.Join(q, " "))
	if len(s.Mut) > 0 {
		fmt.Fprintf(&b, "type %sMutation { %s }\n", s.RootPrefix, strings.Join(s.Mut, " "))
	}
	if len(s.Sub) > 0 {
		fmt.Fprintf(&b, "type %sSubscription { %s }\n", s.RootPrefix, strings.Join(s.Sub, " "))
	}
	if s.RootPrefix != "" {
		b.WriteString("schema { query: " + s.RootPrefix + "Query")
		if len(s.Mut) > 0 {
			b.WriteString(" mutation: " + s.RootPrefix + "Mutation")
		}
		if len(s.Sub) > 0 {
			b.WriteString(" subscription: " + s.RootPrefix + "Subscription")
		}
		b.WriteString(" }\n")
	}
	for _, e := range s.Extra {
		b.WriteString(e + "\n")
	}
	return b.String()
}

type Service struct {
	URL    string
	SDL    string
	Schema *ast.Schema
}

type DataOpts struct {
	EmptyRootList   bool
	DupInList       bool   // duplicates inside entity lists
	NullEntries     bool   // nullable lists contain null entries
	OnlyNullEntries bool   // ... and nothing else
	ListLen         int    // 0 = default pattern; otherwise length of root lists
	Pool            int    // number of entities per Node type (0 = 3)
	WeirdIDs        string // "", "hash", "colon", "dot", "space", "numeric"
	NullRefs        bool   // nullable references are null for some parents
}

type World struct {
	Name     string
	Atoms    []string
	Services []*Service
	Data     DataOpts

	owner map[string]int // "Type.field" -> service index (last declaring service)
	ids   map[string][2]string
}

func BuildWorld(name string, atoms []string, specs []*SvcSpec, data DataOpts) (*World, error) {
	w := &World{Name: name, Atoms: atoms, Data: data}
	for _, sp := range specs {
		sdl := sp.SDL()
		sc, err := gqlparser.LoadSchema(&ast.Source{Name: sp.URL, Input: sdl})
		if err != nil {
			return nil, fmt.Errorf("world %s service %s: %v\n%s", name, sp.URL, err, sdl)
		}
		w.Services = append(w.Services, &Service{URL: sp.URL, SDL: sdl, Schema: sc})
	}
	w.index()
	return w, nil
}

func (w *World) index() {
	w.owner = map[string]int{}
	w.ids = map[string][2]string{}
	for i, s := range w.Services {
		for _, t := range s.Schema.Types {
			if strings.HasPrefix(t.Name, "__") || (t.Kind != ast.Object && t.Kind != ast.Interface) {
				continue
			}
			for _, f := range t.Fields {
				if strings.HasPrefix(f.Name, "__") {
					continue
				}
				if t.Name == "Query" && f.Name == "node" {
					continue
				}
				w.owner[t.Name+"."+f.Name] = i
			}
			if t.Kind == ast.Object && implementsNode(t) {
				for k := 1; k <= w.Data.pool(); k++ {
					w.ids[w.EntityID(t.Name, k)] = [2]string{t.Name, fmt.Sprint(k)}
				}
			}
		}
	}
}

func implementsNode(t *ast.Definition) bool {
	for _, i := range t.Interfaces {
		if i == "Node" {
			return true
		}
	}
	return false
}

func (w *World) URLs() []string {
	var u []string
	for _, s := range w.Services {
		u = append(u, s.URL)
	}
	return u
}

func (w *World) Schemas() []*ast.Schema {
	var u []*ast.Schema
	for _, s := range w.Services {
		u = append(u, s.Schema)
	}
	return u
}

func (d DataOpts) pool() int {
	if d.Pool > 0 {
		return d.Pool
	}
	return 3
}

func (w *World) EntityID(typ string, k int) string {
	switch w.Data.WeirdIDs {
	case "hash":
		return fmt.Sprintf("%s#%d", typ, k)
	case "colon":
		return fmt.Sprintf("%s:%d", typ, k)
	case "dot":
		return fmt.Sprintf("%s.%d", typ, k)
	case "space":
		return fmt.Sprintf("%s %d", typ, k)
	case "numeric":
		return fmt.Sprintf("%d%d", len(typ)*10+int(typ[len(typ)-1]-'0'), k)
	}
	return fmt.Sprintf("%s_%d", typ, k)
}

// TypeOfID is the optional id -> type hint of the gateway (and the node(id:) lookup).
func (w *World) TypeOfID(id interface{}) (string, bool) {
	s, ok := id.(string)
	if !ok {
		return "", false
	}
	e, ok := w.ids[s]
	return e[0], ok
}

// ---------------------------------------------------------------------------------------
// canonical data: every field value is a deterministic function of (type, field, object
// key, coerced arguments, mutation counter); fields with arguments return a function of
// their arguments so that a lost or defaulted-away variable changes the data.

type Counters map[string]int

type resolver struct {
	w      *World
	svc    int // index of the service evaluating (-1 = monolith)
	cnt    Counters
	schema *ast.Schema // schema used for type information of this evaluation
}

// Monolith returns the reference resolver over the union of the data.
func (w *World) Monolith(merged *ast.Schema, cnt Counters) gqlref.Resolver {
	return &resolver{w: w, svc: -1, cnt: cnt, schema: merged}
}

// ForService returns the resolver a fake service uses (same data, own schema).
func (w *World) ForService(i int, cnt Counters) gqlref.Resolver {
	return &resolver{w: w, svc: i, cnt: cnt, schema: w.Services[i].Schema}
}

func num(key string) int {
	if i := strings.LastIndexAny(key, "_#:. "); i >= 0 && i == len(key)-2 && key[len(key)-1] >= '1' && key[len(key)-1] <= '9' {
		return int(key[len(key)-1] - '0')
	}
	if len(key) >= 2 && key[len(key)-1] >= '1' && key[len(key)-1] <= '3' && !strings.ContainsAny(key, ".") {
		return int(key[len(key)-1] - '0')
	}
	h := fnv.New32a()
	h.Write([]byte(key))
	return int(h.Sum32()%5) + 1
}

func keyOf(obj gqlref.Obj) string {
	if id, ok := obj["id"].(string); ok {
		return id
	}
	if k, ok := obj["key"].(string); ok {
		return k
	}
	return "root"
}

func salt(args map[string]interface{}) int {
	if len(args) == 0 {
		return 0
	}
	h := fnv.New32a()
	h.Write([]byte(gqlref.CanonArgs(args)))
	return int(h.Sum32() % 997)
}

func (r *resolver) entity(typ string, k int) gqlref.Obj {
	k = (k-1)%r.w.Data.pool() + 1
	return gqlref.Obj{"__t": typ, "id": r.w.EntityID(typ, k)}
}

// dataSchema returns the schema of the service that owns typ.field: abstract-typed fields
// resolve against the owner's possible types in the monolith and in the service alike.
func (r *resolver) dataSchema(typ, field string) *ast.Schema {
	if i, ok := r.w.owner[typ+"."+field]; ok {
		return r.w.Services[i].Schema
	}
	return r.schema
}

func (r *resolver) Resolve(typ string, obj gqlref.Obj, f *ast.Field, args map[string]interface{}) interface{} {
	field := f.Name
	if field == "id" {
		if id, ok := obj["id"]; ok {
			return id
		}
	}
	ds := r.dataSchema(typ, field)
	td := ds.Types[typ]
	if td == nil {
		td = r.schema.Types[typ]
		ds = r.schema
	}
	var fd *ast.FieldDefinition
	if td != nil {
		fd = td.Fields.ForName(field)
	}
	if fd == nil {
		fd = f.Definition
	}
	if fd == nil {
		panic("harness: no definition for " + typ + "." + field)
	}
	key := keyOf(obj)
	s := salt(args)
	if typ == "Query" && field == "node" || (typ == "Query" && len(fd.Arguments) == 1 && fd.Arguments[0].Name == "id" && fd.Arguments[0].Type.Name() == "ID" && isObjectish(ds, fd.Type.Name())) {
		id, _ := args["id"].(string)
		e, ok := r.w.ids[id]
		if !ok {
			return nil
		}
		if field != "node" {
			// by-id lookup restricted to the declared return type
			rt := fd.Type.Name()
			if rt != e[0] && !possible(ds, rt, e[0]) {
				return nil
			}
		}
		return gqlref.Obj{"__t": e[0], "id": id}
	}
	if typ == "Mutation" {
		r.cnt[field]++
		s += r.cnt[field] * 7
		key = fmt.Sprintf("mut%d", r.cnt[field])
	}
	if typ == "Subscription" {
		// the event number is set by the emitting harness
		n := r.cnt["__event"]
		s += n * 7
		key = fmt.Sprintf("ev%d", n)
	}
	return r.value(ds, typ, field, fd.Type, key, s, args, 0)
}

func isObjectish(s *ast.Schema, name string) bool {
	d := s.Types[name]
	return d != nil && (d.Kind == ast.Object || d.Kind == ast.Interface || d.Kind == ast.Union)
}

func possible(s *ast.Schema, abstract, concrete string) bool {
	for _, p := range s.PossibleTypes[abstract] {
		if p.Name == concrete {
			return true
		}
	}
	return false
}

func (r *resolver) value(ds *ast.Schema, typ, field string, t *ast.Type, key string, s int, args map[string]interface{}, depth int) interface{} {
	// naming conventions of the catalogue: null*/empty* fields always resolve to null / []
	if depth == 0 && strings.HasPrefix(field, "null") && !t.NonNull {
		return nil
	}
	if depth == 0 && strings.HasPrefix(field, "empty") && t.Elem != nil {
		return []interface{}{}
	}
	n := num(key)
	if t.Elem != nil {
		// list
		var ln int
		isRoot := typ == "Query" || typ == "Mutation" || typ == "Subscription"
		switch {
		case isRoot && r.w.Data.EmptyRootList:
			ln = 0
		case isRoot && r.w.Data.ListLen > 0:
			ln = r.w.Data.ListLen
		case isRoot:
			ln = 3
		case depth > 0:
			ln = 2
		default:
			ln = []int{2, 0, 1, 2, 1}[(n-1+len(field))%5]
			if r.w.Data.ListLen > 0 && ln > 0 {
				ln = r.w.Data.ListLen
			}
		}
		if fa, ok := args["first"]; ok {
			if k, ok := gqlref.NormNum(fa).(int64); ok && int(k) < ln && k >= 0 {
				ln = int(k)
			}
		}
		out := make([]interface{}, 0, ln)
		for i := 0; i < ln; i++ {
			ek := fmt.Sprintf("%s.%s%d", key, field, i)
			esalt := s + i
			if r.w.Data.DupInList && i == ln-1 && ln > 1 {
				ek = fmt.Sprintf("%s.%s%d", key, field, 0)
				esalt = s
			}
			if r.w.Data.NullEntries && !t.Elem.NonNull && (i == 1 || r.w.Data.OnlyNullEntries) {
				out = append(out, nil)
				continue
			}
			out = append(out, r.elem(ds, typ, field, t.Elem, key, ek, esalt, args, depth+1, i))
		}
		return out
	}
	return r.elem(ds, typ, field, t, key, key+"."+field, s, args, depth, -1)
}

// elem produces a non-list value (or recurses for nested lists).
func (r *resolver) elem(ds *ast.Schema, typ, field string, t *ast.Type, parentKey, ek string, s int, args map[string]interface{}, depth, idx int) interface{} {
	if t.Elem != nil {
		return r.value(ds, typ, field, t, ek, s, args, depth)
	}
	n := num(parentKey)
	name := t.Name()
	d := ds.Types[name]
	if d == nil {
		d = r.schema.Types[name]
	}
	if d == nil {
		return nil
	}
	pick := n + len(field) + s
	if idx >= 0 {
		pick += idx
		if r.w.Data.DupInList && strings.HasSuffix(ek, "0") {
			pick = n + len(field) + s
		}
	}
	switch d.Kind {
	case ast.Object:
		if implementsNode(d) {
			if !t.NonNull && idx < 0 && r.w.Data.NullRefs && n == 3 {
				return nil
			}
			return r.entity(name, pick%r.w.Data.pool()+1)
		}
		if !t.NonNull && idx < 0 && r.w.Data.NullRefs && n == 2 {
			return nil
		}
		return gqlref.Obj{"__t": name, "key": ek}
	case ast.Interface, ast.Union:
		pts := ds.PossibleTypes[name]
		if len(pts) == 0 {
			return nil
		}
		var names []string
		for _, p := range pts {
			if p.Kind == ast.Object { // gqlparser lists implementing interfaces as possible types too
				names = append(names, p.Name)
			}
		}
		if len(names) == 0 {
			return nil
		}
		sort.Strings(names)
		// list entries step through the member types one by one (pick moves by two per
		// entry, which would keep a two-member union homogeneous)
		tpick := pick
		if idx > 0 {
			tpick -= idx
		}
		c := ds.Types[names[tpick%len(names)]]
		if implementsNode(c) {
			return r.entity(c.Name, pick%r.w.Data.pool()+1)
		}
		return gqlref.Obj{"__t": c.Name, "key": ek}
	case ast.Enum:
		return d.EnumValues[pick%len(d.EnumValues)].Name
	case ast.Scalar:
		// "__epoch" > 0: the data of the services has changed (all values but ids move)
		ep := r.cnt["__epoch"]
		switch name {
		case "Int":
			return int64(n*10 + len(field) + s + ep*1000)
		case "Float":
			return float64(n) + 0.5 + float64(s)
		case "Boolean":
			return (n+s)%2 == 0
		case "ID":
			return fmt.Sprintf("x%d-%s", n, field)
		default: // String and custom scalars
			if ep > 0 {
				return field + "@" + parentKey + gqlref.CanonArgs(args) + idxSuffix(idx) + fmt.Sprintf("#e%d", ep)
			}
			return field + "@" + parentKey + gqlref.CanonArgs(args) + idxSuffix(idx)
		}
	}
	return nil
}

func idxSuffix(i int) string {
	if i < 0 {
		return ""
	}
	return fmt.Sprintf("[%d]", i)
}
