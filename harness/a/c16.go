package a

import (
	"encoding/json"
	"fmt"
	"reflect"
	"sort"
	"strings"
	"time"

	"verif/gqlref"
	"verif/schemacanon"

	"github.com/buildbuildio/pebbles/introspection"
	"github.com/buildbuildio/pebbles/queryer"
	"github.com/buildbuildio/pebbles/requests"
	"github.com/vektah/gqlparser/v2"
	"github.com/vektah/gqlparser/v2/ast"
)

// C16: what the gateway reports about its schema is the schema it enforces.

const graphqlJSIntrospection = `query IntrospectionQuery { __schema { queryType { name } mutationType { name } subscriptionType { name } types { ...FullType } directives { name description locations args { ...InputValue } } } }
fragment FullType on __Type { kind name description fields(includeDeprecated: true) { name description args { ...InputValue } type { ...TypeRef } isDeprecated deprecationReason } inputFields { ...InputValue } interfaces { ...TypeRef } enumValues(includeDeprecated: true) { name description isDeprecated deprecationReason } possibleTypes { ...TypeRef } }
fragment InputValue on __InputValue { name description type { ...TypeRef } defaultValue }
fragment TypeRef on __Type { kind name ofType { kind name ofType { kind name ofType { kind name ofType { kind name ofType { kind name ofType { kind name ofType { kind name } } } } } } } }`

// gwQueryer lets a second introspector ("another gateway") introspect the first gateway.
type gwQueryer struct {
	f    *Fed
	last map[string]interface{}
}

func (q *gwQueryer) URL() string { return "http://gateway" }
func (q *gwQueryer) Subscribe(*requests.Request, <-chan struct{}, chan *requests.Response) error {
	return fmt.Errorf("not supported")
}
func (q *gwQueryer) Query(reqs []*requests.Request) ([]map[string]interface{}, error) {
	out := make([]map[string]interface{}, len(reqs))
	for i, r := range reqs {
		b, _ := json.Marshal(map[string]interface{}{"query": r.Query, "operationName": r.OperationName, "variables": r.Variables})
		_, body := q.f.Post(b, "application/json")
		var resp struct {
			Data   map[string]interface{} `json:"data"`
			Errors []interface{}          `json:"errors"`
		}
		if err := json.Unmarshal(body, &resp); err != nil {
			return nil, err
		}
		if len(resp.Errors) > 0 {
			return nil, fmt.Errorf("gateway answered introspection with errors: %v", resp.Errors[0])
		}
		out[i] = resp.Data
		q.last = resp.Data
	}
	return out, nil
}

// sortLists orders every list of objects by their "name" (the spec leaves order open).
func sortLists(v interface{}) interface{} {
	switch x := v.(type) {
	case map[string]interface{}:
		for k, vv := range x {
			if (k == "description" || strings.HasPrefix(k, "description#")) && vv == "" {
				vv = nil
			}
			x[k] = sortLists(vv)
		}
		return x
	case []interface{}:
		for i := range x {
			x[i] = sortLists(x[i])
		}
		sort.SliceStable(x, func(i, j int) bool {
			a, _ := json.Marshal(x[i])
			b, _ := json.Marshal(x[j])
			return string(a) < string(b)
		})
		return x
	}
	return v
}

// introDiff compares reference and gateway introspection answers; signatures name the
// path of field names (list indices dropped) and the kind of difference.
func introDiff(want, got interface{}, path string, set map[string]bool) {
	if len(set) > 8 {
		return
	}
	switch w := want.(type) {
	case map[string]interface{}:
		g, ok := got.(map[string]interface{})
		if !ok {
			set[fmt.Sprintf("introspection %s: want object got %s", path, kindOf(got))] = true
			return
		}
		for k, wv := range w {
			gv, ok := g[k]
			if !ok {
				set[fmt.Sprintf("introspection %s.%s: MISSING", path, k)] = true
				continue
			}
			introDiff(wv, gv, path+"."+k, set)
		}
		for k := range g {
			if _, ok := w[k]; !ok {
				set[fmt.Sprintf("introspection %s.%s: EXTRA", path, k)] = true
			}
		}
	case []interface{}:
		g, ok := got.([]interface{})
		if !ok {
			set[fmt.Sprintf("introspection %s: want list got %s", path, kindOf(got))] = true
			return
		}
		if len(w) != len(g) {
			set[fmt.Sprintf("introspection %s: list length differs", path)] = true
			return
		}
		byName := func(l []interface{}) (map[string]interface{}, bool) {
			m := map[string]interface{}{}
			for _, e := range l {
				em, ok := e.(map[string]interface{})
				if !ok {
					return nil, false
				}
				n, ok := em["name"].(string)
				if !ok {
					return nil, false
				}
				if _, dup := m[n]; dup {
					return nil, false
				}
				m[n] = e
			}
			return m, true
		}
		wm, ok1 := byName(w)
		gm, ok2 := byName(g)
		if ok1 && ok2 {
			for n, we := range wm {
				ge, ok := gm[n]
				if !ok {
					set[fmt.Sprintf("introspection %s: list entries differ by name", path)] = true
					continue
				}
				introDiff(we, ge, path, set)
			}
			return
		}
		// no names to align on: compare as multisets
		cnt := map[string]int{}
		for _, e := range w {
			b, _ := json.Marshal(e)
			cnt[string(b)]++
		}
		for _, e := range g {
			b, _ := json.Marshal(e)
			cnt[string(b)]--
		}
		for _, c := range cnt {
			if c != 0 {
				// no names: descend positionally (both sides are sorted by their JSON text)
				for i := range w {
					introDiff(w[i], g[i], path, set)
				}
				return
			}
		}
	default:
		// an absent description may be reported as null or as the empty string: both are
		// values of the nullable String the specification declares and mean the same
		if strings.HasSuffix(path, ".description") || strings.Contains(path[strings.LastIndex(path, ".")+1:], "description#") {
			if (want == nil && got == "") || (want == "" && got == nil) {
				return
			}
		}
		if !reflect.DeepEqual(want, got) {
			if want == nil || got == nil {
				set[fmt.Sprintf("introspection %s: want %s got %s", path, kindOf(want), kindOf(got))] = true
			} else {
				set[fmt.Sprintf("introspection %s: VALUE", path)] = true
			}
		}
	}
}

// tailPath keeps the last two segments of a path (signature abstraction).
func abstractIntroSig(s string, alias map[string]string) string {
	// "introspection .__schema.types.fields.args.defaultValue: VALUE" -> keep last 2 names
	i := strings.Index(s, ": ")
	if !strings.HasPrefix(s, "introspection ") || i < 0 {
		return s
	}
	p := strings.Split(strings.Trim(s[len("introspection "):i], "."), ".")
	for j := range p {
		if n, ok := alias[p[j]]; ok {
			p[j] = n
		}
	}
	if len(p) > 2 {
		p = p[len(p)-2:]
	}
	return "introspection " + strings.Join(p, ".") + s[i:]
}

func introAtoms(doc *ast.QueryDocument, op *ast.OperationDefinition) []string {
	set := map[string]bool{}
	var walk func(ss ast.SelectionSet)
	walk = func(ss ast.SelectionSet) {
		for _, s := range ss {
			switch x := s.(type) {
			case *ast.Field:
				set["isel-"+x.Name] = true
				if x.Alias != "" && x.Alias != x.Name {
					set["isel-alias"] = true
				}
				for _, a := range x.Arguments {
					set["iarg-"+a.Name] = true
					if a.Value.Kind == ast.Variable {
						set["iarg-variable"] = true
					}
				}
				walk(x.SelectionSet)
			case *ast.InlineFragment:
				set["isel-fragment"] = true
				walk(x.SelectionSet)
			case *ast.FragmentSpread:
				set["isel-fragment"] = true
				if x.Definition != nil {
					walk(x.Definition.SelectionSet)
				}
			}
		}
	}
	walk(op.SelectionSet)
	return setToList(set)
}

func c16Jobs(tier string) []string {
	dw := 1
	k := 3
	if tier == "thorough" {
		dw = 2
		k = 4
	}
	var jobs []string
	for _, w := range EnumWorlds([]string{"Wmin", "W0"}, dw, 0) {
		jobs = append(jobs, fmt.Sprintf("%s|e0p|std", w.Name()), fmt.Sprintf("%s|s0p|std", w.Name()))
	}
	for _, w := range []string{"W0", "W0+ts-defaults", "W0+ts-deprecated", "W0+ts-directive", "W0+ts-wrappers", "W0+ts-descriptions", "W0+union-list", "W0+interface-value", "W0+root-input", "W0+root-enum", "Wmin", "W0+ts-interface-chain"} {
		jobs = append(jobs, fmt.Sprintf("%s|e0p|treeK%d", w, k))
		jobs = append(jobs, fmt.Sprintf("%s|s0p|treeK%d", w, k-1))
	}
	return jobs
}

func (f *Fed) refIntrospect(c Case) (interface{}, *ast.QueryDocument, *ast.OperationDefinition, string) {
	doc, gerr := f.load(c.Q)
	if doc == nil {
		return nil, nil, nil, gerr
	}
	op := pickOp(doc, c.OpName)
	if op == nil {
		return nil, nil, nil, "no operation"
	}
	var raw map[string]interface{}
	if c.Vars != nil {
		b, _ := json.Marshal(c.Vars)
		json.Unmarshal(b, &raw)
	}
	ref, err := gqlref.Execute(f.Merged, &gqlref.IntrospectResolver{Schema: f.Merged, Next: f.W.Monolith(f.Merged, Counters{})}, op, raw, nil)
	if err != nil {
		return nil, nil, nil, err.Error()
	}
	return gqlref.Norm(ref), doc, op, ""
}

func init() {
	Props["C16"] = &Prop{
		ID:    "C16",
		Level: "exploration",
		Rule: "case = (merged schema of a world with <=1 (thorough 2) atoms, introspection operation); operations: the standard introspection query (the gateway's own text and graphql-js's), every selection tree with <=K fields (K=3 quick, 4 thorough; " +
			"ofType depth<=3, includeDeprecated omitted/true) under __schema and under __type(name:) for every type name and an unknown name, by literal and by variable, with aliases/fragments decorations, one field selected twice with different includeDeprecated arguments, two directives on one selection (also one on a fragment and one on the field inside), and introspection mixed with a data field; " +
			"oracle: answer == gqlref.Introspect over the merged schema captured from the real merger (lists compared as sets), __type(name:X) == the types entry named X, and both a standard client (FromIntrospection) and another gateway's " +
			"introspector rebuild a schemacanon-equal schema from the standard query's answer, and every operation with <=2 fields (plus node lookups) is accepted by the gateway's validation iff it is valid against the schema rebuilt from the gateway's own answer; non-trivial = every case",
		Assumptions: []string{"gqlref.IntrospectResolver is the specification-shaped expected answer (2018 shape of gqlparser's prelude)", "list order is not compared"},
		Jobs:        c16Jobs,
		Budget: func(tier string) time.Duration {
			if tier == "quick" {
				return 70 * time.Second
			}
			return 12 * time.Minute
		},
		RunJob: func(tier, job string, from int, em *Emitter) {
			wd, cfg, opset := parseJob(job)
			w, err := wd.Build()
			if err != nil {
				em.GenError(err.Error())
				return
			}
			f, err := NewFed(w, cfg)
			if err != nil {
				em.GenError(err.Error())
				return
			}
			watoms := append(append([]string{}, w.Atoms...), cfg.Atoms()...)
			var cases []Case
			if opset == "std" {
				cases = append(cases, Case{Q: graphqlJSIntrospection, OpName: "IntrospectionQuery", Dec: "std-graphql-js"})
				cases = append(cases, Case{Q: "{ __schema { queryType { name } } n1s { id name } }", Dec: "mixed-with-data"})
				cases = append(cases, Case{Q: "{ __typename __schema { queryType { name } } }", Dec: "mixed-with-typename"})
			} else {
				var k int
				fmt.Sscan(opset[5:], &k)
				g := &opGen{s: f.Merged, w: f.W, memo: map[string][]sel{}}
				for _, x := range g.gen("__Schema", k, 4) {
					cases = append(cases, Case{Q: "{ __schema { " + x.s + " } }", Dec: "schema-tree"})
				}
				var names []string
				for n := range f.Merged.Types {
					names = append(names, n)
				}
				sort.Strings(names)
				names = append(names, "NoSuchType")
				sels := g.gen("__Type", k-1, 4)
				for _, n := range names {
					if strings.HasPrefix(n, "__") && n != "__Type" {
						continue
					}
					for _, x := range sels {
						cases = append(cases, Case{Q: fmt.Sprintf("{ __type(name: %q) { %s } }", n, x.s), Dec: "type-tree:" + n})
					}
				}
				// by variable, and decorated
				for _, n := range []string{"N1", "Query", "NoSuchType"} {
					for _, x := range g.gen("__Type", 2, 3) {
						cases = append(cases, Case{Q: fmt.Sprintf("query ($n: String!) { __type(name: $n) { %s } }", x.s), Vars: map[string]interface{}{"n": n}, Dec: "type-by-variable"})
					}
				}
				cases = append(cases, Case{Q: "query ($d: Boolean) { __type(name: \"Dep\") { fields(includeDeprecated: $d) { name } } }", Vars: map[string]interface{}{"d": true}, Dec: "includeDeprecated-variable"})
				cases = append(cases, Case{Q: "query ($d: Boolean = true) { __type(name: \"Dep\") { fields(includeDeprecated: $d) { name } } }", Dec: "includeDeprecated-variable-default"})
				for _, x := range g.gen("__Type", 2, 3) {
					cases = append(cases, Decorate(f.Merged, "{ __type(name: \"N1\") { "+x.s+" } }")...)
				}
				// one field selected twice with different arguments (each selection answers for itself), and
				// two directives deciding about one selection (every one of them has to agree)
				for _, q := range []string{
					`{ __type(name: "Dep") { all: fields(includeDeprecated: true) { name } current: fields { name } } }`,
					`{ __type(name: "Dep") { current: fields { name } all: fields(includeDeprecated: true) { name } } }`,
					`{ __type(name: "Dep") { all: fields(includeDeprecated: true) { name } no: fields(includeDeprecated: false) { name } } }`,
					`{ __type(name: "DepE") { all: enumValues(includeDeprecated: true) { name } current: enumValues { name } } }`,
					`{ __type(name: "DepE") { fields(includeDeprecated: true) { name } enumValues { name } } }`,
					`{ __schema { types { name all: fields(includeDeprecated: true) { name } current: fields { name } } } }`,
					`{ __type(name: "N1") { ... on __Type @include(if: false) { name @skip(if: false) } kind } }`,
					`{ __type(name: "N1") { ... on __Type @skip(if: false) { name @include(if: false) } kind } }`,
					`{ __type(name: "N1") { name @skip(if: false) @include(if: false) kind } }`,
					`{ __type(name: "N1") { name @include(if: true) @skip(if: true) kind } }`,
					`{ __type(name: "N1") { name @include(if: true) @skip(if: false) kind } }`,
					`{ __typename @skip(if: false) @include(if: false) n1s { id } }`,
				} {
					cases = append(cases, Case{Q: q, Dec: "hand-introspection"})
				}
				// a literal type name that is also the name of a variable of the request (a literal is a literal)
				cases = append(cases, Case{Q: `query ($N1: String) { lit: __type(name: "N1") { name kind } byVar: __type(name: $N1) { name kind } }`, Vars: map[string]interface{}{"N1": "V"}, Dec: "hand-introspection"},
					Case{Q: `{ __type(name: "N1") { name kind } }`, Vars: map[string]interface{}{"N1": "V"}, Dec: "hand-introspection"})
				cases = append(cases, Case{Q: `query ($s: Boolean!, $i: Boolean!) { __type(name: "N1") { ...F @skip(if: $s) kind } } fragment F on __Type { name @include(if: $i) }`,
					Vars: map[string]interface{}{"s": true, "i": true}, Dec: "hand-introspection"},
					Case{Q: `query ($s: Boolean!, $i: Boolean!) { __type(name: "N1") { ...F @skip(if: $s) kind } } fragment F on __Type { name @include(if: $i) }`,
						Vars: map[string]interface{}{"s": false, "i": false}, Dec: "hand-introspection"})
			}
			idx := 0
			for _, c := range cases {
				idx++
				if idx-1 < from {
					continue
				}
				ref, doc, op, gerr := f.refIntrospect(c)
				if gerr != "" {
					em.GenError(gerr + " :: " + c.Q)
					continue
				}
				atoms := append(append([]string{}, watoms...), introAtoms(doc, op)...)
				atoms = append(atoms, "icase-"+strings.SplitN(c.Dec, ":", 2)[0])
				if strings.HasSuffix(c.Dec, ":NoSuchType") || (c.Vars != nil && c.Vars["n"] == "NoSuchType") {
					atoms = append(atoms, "unknown-type-name")
				}
				rp := replayCase{World: wd.Name(), Cfg: cfg.String(), Query: c.Q, Vars: c.Vars, OpName: c.OpName, Dec: c.Dec}
				if !em.Begin(idx-1, atoms, rp) {
					if em.Capped() {
						return
					}
					continue
				}
				f.Fakes.Reset()
				_, body := f.Post(caseBody(c), "application/json")
				var resp map[string]interface{}
				set := map[string]bool{}
				if err := json.Unmarshal(body, &resp); err != nil {
					set["response is not JSON"] = true
				} else if e, ok := resp["errors"].([]interface{}); ok && len(e) > 0 {
					msg := ""
					if m, ok := e[0].(map[string]interface{}); ok {
						msg = fmt.Sprint(m["message"])
					}
					set["errors: "+Template(msg)] = true
				} else {
					raw := map[string]bool{}
					introDiff(sortLists(byFieldName(ref, op.SelectionSet)), sortLists(byFieldName(resp["data"], op.SelectionSet)), "", raw)
					for s := range raw {
						set[abstractIntroSig(s, nil)] = true
					}
				}
				if c.Dec == "std-graphql-js" && len(set) >= 0 {
					// rebuild by a standard client and by another gateway
					if data, ok := resp["data"].(map[string]interface{}); ok {
						want := schemacanon.Canon(f.Merged, canonFull)
						for k := range want {
							if strings.HasSuffix(k, " repeatable") {
								delete(want, k)
							}
						}
						if sc, _, err := gqlref.FromIntrospection(data); err != nil {
							set["a standard client cannot rebuild the schema from the answer: "+Template(err.Error())] = true
						} else {
							for _, d := range schemacanon.Diff(want, schemacanon.Canon(sc, canonFull)) {
								set["standard-client rebuild "+d.Sig()] = true
							}
							// the reported schema is the enforced one: an operation is accepted by the gateway's
							// validation iff it is valid against what the gateway reports about itself
							probes := GenOps(f.Merged, f.W, 2)
							probes = append(probes, Case{Q: `{ node(id: "N1_1") { id } }`}, Case{Q: `{ node(id: "N1_1") { ... on N1 { id } } }`}, Case{Q: "{ __schema { queryType { name } } }"}, Case{Q: "{ __typename }"})
							for _, pc := range probes {
								_, e1 := gqlparser.LoadQuery(f.GWSchema, pc.Q)
								_, e2 := gqlparser.LoadQuery(sc, pc.Q)
								if (e1 == nil) != (e2 == nil) {
									if e1 == nil {
										set["validation accepts an operation that is invalid against the schema the gateway reports: "+Template(e2[0].Message)] = true
									} else {
										set["validation rejects an operation that is valid against the schema the gateway reports: "+Template(e1[0].Message)] = true
									}
								}
							}
						}
						gq := &gwQueryer{f: f}
						in := &introspection.ParallelRemoteSchemaIntrospector{Factory: func(string) queryer.Queryer { return gq }}
						if res, err := in.IntrospectRemoteSchemas("http://gateway"); err != nil {
							set["another gateway cannot introspect this gateway: "+Template(err.Error())] = true
						} else {
							for _, d := range schemacanon.Diff(want, schemacanon.Canon(res[0], canonFull)) {
								set["second-gateway rebuild "+d.Sig()] = true
							}
						}
					}
				}
				// __type(name: X) agrees with the __schema.types entry named X
				if strings.HasPrefix(c.Dec, "type-tree:") && !strings.HasSuffix(c.Dec, ":NoSuchType") {
					name := strings.TrimPrefix(c.Dec, "type-tree:")
					inner := c.Q[strings.Index(c.Q, ") {")+3 : len(c.Q)-3]
					q2 := "{ __schema { types { " + inner + " zzname: name } } }"
					_, b2 := f.Post(caseBody(Case{Q: q2}), "application/json")
					var r2 map[string]interface{}
					if json.Unmarshal(b2, &r2) == nil {
						var entry interface{}
						if d, ok := r2["data"].(map[string]interface{}); ok {
							if sc, ok := d["__schema"].(map[string]interface{}); ok {
								if ts, ok := sc["types"].([]interface{}); ok {
									for _, t := range ts {
										if tm, ok := t.(map[string]interface{}); ok && tm["zzname"] == name {
											entry = tm
										}
									}
								}
							}
						}
						var byName interface{}
						if d, ok := resp["data"].(map[string]interface{}); ok {
							byName = d["__type"]
						}
						if em2, ok := entry.(map[string]interface{}); ok {
							delete(em2, "zzname")
							if !reflect.DeepEqual(sortLists(gqlref.Norm(em2)), sortLists(gqlref.Norm(byName))) {
								set["__type(name:) disagrees with the __schema.types entry of the same name"] = true
							}
						} else if byName != nil {
							set["__type(name:) answers for a type that __schema.types does not list"] = true
						}
					}
				}
				if len(set) > 0 {
					em.Fail(atoms, setToList(set), rp)
				}
				if idx%797 == 0 {
					em.Sample(rp)
				}
				em.Done(true)
			}
		},
	}
}

func collectAliases(ss ast.SelectionSet, m map[string]string) {
	for _, s := range ss {
		switch x := s.(type) {
		case *ast.Field:
			if x.Alias != "" && x.Alias != x.Name {
				m[x.Alias] = x.Name
			}
			collectAliases(x.SelectionSet, m)
		case *ast.InlineFragment:
			collectAliases(x.SelectionSet, m)
		case *ast.FragmentSpread:
			if x.Definition != nil {
				collectAliases(x.Definition.SelectionSet, m)
			}
		}
	}
}

// byFieldName re-keys an answer by field names instead of response keys (aliases), so
// that difference signatures do not depend on the aliases a case happens to use.
func byFieldName(v interface{}, ss ast.SelectionSet) interface{} {
	switch x := v.(type) {
	case []interface{}:
		out := make([]interface{}, len(x))
		for i, e := range x {
			out[i] = byFieldName(e, ss)
		}
		return out
	case map[string]interface{}:
		out := map[string]interface{}{}
		used := map[string]bool{}
		seen := map[string]int{}
		// selections that answer under one response key are one field: their sub-selections merge
		merged := map[string]ast.SelectionSet{}
		var collect func(ss ast.SelectionSet)
		collect = func(ss ast.SelectionSet) {
			for _, s := range ss {
				switch f := s.(type) {
				case *ast.Field:
					key := f.Alias
					if key == "" {
						key = f.Name
					}
					merged[key] = append(merged[key], f.SelectionSet...)
				case *ast.InlineFragment:
					collect(f.SelectionSet)
				case *ast.FragmentSpread:
					if f.Definition != nil {
						collect(f.Definition.SelectionSet)
					}
				}
			}
		}
		collect(ss)
		var walk func(ss ast.SelectionSet)
		walk = func(ss ast.SelectionSet) {
			for _, s := range ss {
				switch f := s.(type) {
				case *ast.Field:
					key := f.Alias
					if key == "" {
						key = f.Name
					}
					if used[key] {
						continue
					}
					used[key] = true
					val, ok := x[key]
					if !ok {
						continue
					}
					seen[f.Name]++
					nk := f.Name
					if seen[f.Name] > 1 {
						nk = fmt.Sprintf("%s#%d", f.Name, seen[f.Name])
					}
					out[nk] = byFieldName(val, merged[key])
				case *ast.InlineFragment:
					walk(f.SelectionSet)
				case *ast.FragmentSpread:
					if f.Definition != nil {
						walk(f.Definition.SelectionSet)
					}
				}
			}
		}
		walk(ss)
		for k, val := range x {
			if !used[k] {
				out["?"+k] = val
			}
		}
		return out
	}
	return v
}
