package a

import (
	"encoding/json"
	"fmt"
	"reflect"
	"sort"
	"strings"
	"time"

	"github.com/vektah/gqlparser/v2"
	"github.com/vektah/gqlparser/v2/ast"
	"github.com/vektah/gqlparser/v2/parser"
)

// C10 part 1: single invalidating mutations of valid operations.

type invCase struct {
	Case
	Kind string
	Warm *Case // a valid request sent first on the same gateway (same document text)
}

var InvalidKinds = []string{"unknown-field", "unknown-type-condition", "unknown-argument", "unknown-directive", "wrong-literal-type",
	"undeclared-variable", "unused-variable", "mistyped-variable", "required-argument-removed", "scalar-with-selection", "object-without-selection",
	"fragment-cycle", "unknown-fragment", "duplicate-operation-name", "ambiguous-operation", "unknown-operation-name", "operation-name-for-anonymous-operation", "conflicting-response-keys",
	"wrong-root-type", "syntax-error"}

func invalidate(s *ast.Schema, q string) []invCase {
	var out []invCase
	base, err := parser.ParseQuery(&ast.Source{Input: q})
	if err != nil {
		return nil
	}
	var fs0 []*ast.Field
	fieldsPre(base.Operations[0].SelectionSet, &fs0)
	for p := range fs0 {
		for _, k := range InvalidKinds {
			d, _ := parser.ParseQuery(&ast.Source{Input: q})
			op := d.Operations[0]
			var ff []*ast.Field
			fieldsPre(op.SelectionSet, &ff)
			f := ff[p]
			ptype, _ := parentTypeOf(s, op, f)
			if ptype == "" {
				continue
			}
			var fd *ast.FieldDefinition
			if f.Name != "__typename" {
				fd = s.Types[ptype].Fields.ForName(f.Name)
			}
			ok := true
			opName := ""
			text := ""
			whole := p == 0 // document-level mutations are applied once
			switch k {
			case "unknown-field":
				f.Name = "nope"
				f.Alias = ""
			case "unknown-type-condition":
				if len(f.SelectionSet) == 0 {
					ok = false
				} else {
					f.SelectionSet = ast.SelectionSet{&ast.InlineFragment{TypeCondition: "Nope", SelectionSet: f.SelectionSet}}
				}
			case "unknown-argument":
				f.Arguments = append(f.Arguments, &ast.Argument{Name: "zzz", Value: &ast.Value{Kind: ast.IntValue, Raw: "1"}})
			case "unknown-directive":
				f.Directives = append(f.Directives, &ast.Directive{Name: "nope"})
			case "wrong-literal-type":
				ok = false
				for _, a := range f.Arguments {
					if fd != nil && fd.Arguments.ForName(a.Name) != nil && fd.Arguments.ForName(a.Name).Type.Name() == "Int" {
						a.Value = &ast.Value{Kind: ast.StringValue, Raw: "str"}
						ok = true
						break
					}
				}
			case "undeclared-variable":
				if len(f.Arguments) == 0 {
					ok = false
				} else {
					f.Arguments[0].Value = &ast.Value{Kind: ast.Variable, Raw: "u"}
				}
			case "unused-variable":
				if !whole {
					ok = false
				} else {
					op.VariableDefinitions = append(op.VariableDefinitions, &ast.VariableDefinition{Variable: "u", Type: ast.NamedType("Int", nil)})
				}
			case "mistyped-variable":
				ok = false
				for _, a := range f.Arguments {
					if fd != nil && fd.Arguments.ForName(a.Name) != nil && fd.Arguments.ForName(a.Name).Type.Name() == "Int" {
						a.Value = &ast.Value{Kind: ast.Variable, Raw: "v"}
						op.VariableDefinitions = append(op.VariableDefinitions, &ast.VariableDefinition{Variable: "v", Type: ast.NamedType("String", nil)})
						ok = true
						break
					}
				}
			case "required-argument-removed":
				ok = false
				if fd != nil {
					for i, a := range f.Arguments {
						ad := fd.Arguments.ForName(a.Name)
						if ad != nil && ad.Type.NonNull && ad.DefaultValue == nil {
							f.Arguments = append(f.Arguments[:i:i], f.Arguments[i+1:]...)
							ok = true
							break
						}
					}
				}
			case "scalar-with-selection":
				if fd == nil || len(f.SelectionSet) != 0 {
					ok = false
				} else {
					f.SelectionSet = ast.SelectionSet{&ast.Field{Name: "x", Alias: "x"}}
				}
			case "object-without-selection":
				if len(f.SelectionSet) == 0 {
					ok = false
				} else {
					f.SelectionSet = nil
				}
			case "fragment-cycle":
				if len(f.SelectionSet) == 0 || fd == nil || s.Types[fd.Type.Name()].Kind != ast.Object {
					ok = false
				} else {
					tn := fd.Type.Name()
					d.Fragments = append(d.Fragments, &ast.FragmentDefinition{Name: "A", TypeCondition: tn,
						SelectionSet: append(ast.SelectionSet{&ast.FragmentSpread{Name: "A"}}, f.SelectionSet...)})
					f.SelectionSet = ast.SelectionSet{&ast.FragmentSpread{Name: "A"}}
				}
			case "unknown-fragment":
				if len(f.SelectionSet) == 0 {
					ok = false
				} else {
					f.SelectionSet = append(f.SelectionSet, &ast.FragmentSpread{Name: "Nope"})
				}
			case "duplicate-operation-name":
				if !whole {
					ok = false
				} else {
					op.Name = "Dup"
					cp := *op
					d.Operations = append(d.Operations, &cp)
					opName = "Dup"
				}
			case "ambiguous-operation":
				if !whole {
					ok = false
				} else {
					op.Name = "A1"
					cp := *op
					cp.Name = "A2"
					d.Operations = append(d.Operations, &cp)
				}
			case "unknown-operation-name":
				if !whole {
					ok = false
				} else {
					op.Name = "A1"
					opName = "Other"
				}
			case "operation-name-for-anonymous-operation":
				// the document's only operation has no name, the request names one
				if !whole {
					ok = false
				} else {
					opName = "Other"
				}
			case "conflicting-response-keys":
				// alias a sibling of a different field to the same key
				ok = false
				if fd != nil {
					for _, o := range s.Types[ptype].Fields {
						if o.Name != f.Name && !strings.HasPrefix(o.Name, "__") && len(o.Arguments) == 0 && o.Type.Name() != fd.Type.Name() {
							sib := &ast.Field{Name: o.Name, Alias: keyOfField(f)}
							if td := s.Types[o.Type.Name()]; td != nil && (td.Kind == ast.Object || td.Kind == ast.Interface || td.Kind == ast.Union) {
								sib.SelectionSet = ast.SelectionSet{&ast.Field{Name: "__typename", Alias: "__typename"}}
							}
							ok = appendSiblingField(&op.SelectionSet, f, sib)
							break
						}
					}
				}
			case "wrong-root-type":
				if !whole || op.Operation != ast.Query || s.Mutation == nil {
					ok = false
				} else {
					op.Operation = ast.Mutation
				}
			case "syntax-error":
				if !whole {
					ok = false
				} else {
					text = strings.TrimSuffix(strings.TrimSpace(q), "}")
				}
			}
			if !ok {
				continue
			}
			if text == "" {
				text = printDoc(d)
			}
			ic := invCase{Case: Case{Q: text, Vars: map[string]interface{}{}, OpName: opName, Dec: fmt.Sprintf("%s@%d", k, p)}, Kind: k}
			switch k {
			case "unknown-operation-name", "ambiguous-operation":
				// the same document text is valid when the operation is named correctly
				ic.Warm = &Case{Q: text, Vars: map[string]interface{}{}, OpName: "A1"}
			}
			out = append(out, ic)
		}
	}
	return out
}

// siblingDocument puts the (single, possibly invalid) operation of q under the name Bad next to a valid
// operation Good; "" if q does not parse, holds several operations or fragments named like ours.
func siblingDocument(q string) string {
	d, err := parser.ParseQuery(&ast.Source{Input: q})
	if err != nil || len(d.Operations) != 1 {
		return ""
	}
	t := strings.TrimSpace(q)
	var bad string
	switch {
	case strings.HasPrefix(t, "{"):
		bad = "query Bad " + t
	case d.Operations[0].Name != "":
		return ""
	case strings.HasPrefix(t, "query"):
		bad = "query Bad" + strings.TrimPrefix(t, "query")
	case strings.HasPrefix(t, "mutation"):
		bad = "mutation Bad" + strings.TrimPrefix(t, "mutation")
	default:
		return ""
	}
	return "query Good { n1s { id } } " + bad
}

func keyOfField(f *ast.Field) string {
	if f.Alias != "" {
		return f.Alias
	}
	return f.Name
}

func appendSiblingField(root *ast.SelectionSet, f *ast.Field, sib *ast.Field) bool {
	var rec func(ss *ast.SelectionSet) bool
	rec = func(ss *ast.SelectionSet) bool {
		for _, s := range *ss {
			switch s := s.(type) {
			case *ast.Field:
				if s == f {
					*ss = append(*ss, sib)
					return true
				}
				if rec(&s.SelectionSet) {
					return true
				}
			case *ast.InlineFragment:
				if rec(&s.SelectionSet) {
					return true
				}
			}
		}
		return false
	}
	return rec(root)
}

// gatewayRejects mirrors exactly what the property calls invalid: fails validation against
// the merged schema, names an unknown operation, or is ambiguous.
func invalidForGateway(s *ast.Schema, c Case) bool {
	doc, errs := gqlparser.LoadQuery(s, c.Q)
	if errs != nil {
		return true
	}
	return pickOp(doc, c.OpName) == nil
}

func c10Jobs(tier string) []string {
	if tier == "quick" {
		return []string{"W0|e0p|invK3", "Wmin|e0p|invK3", "W0+root-two-args|e0p|invK2", "W0+mutation-second-service|e0p|invK2", "W0+union-list|e0p|invK2", "W0+interface-value|e0p|invK2",
			"W0+root-input|e0p|invK2", "W0+root-enum|e0p|invK2", "W0|s1c|invK2",
			"W0|e0p|errK3", "W0+third-service|e0p|errK2", "W0+mutation-second-service|e0p|errK2", "W0|e0pm1|errK2", "W0|e0pm2|errK2", "W0+entity-list-self|e0p|errK3"}
	}
	var jobs []string
	for _, w := range EnumWorlds([]string{"Wmin", "W0"}, 1, 0) {
		jobs = append(jobs, w.Name()+"|e0p|invK3")
	}
	jobs = append(jobs, "W0|e0p|invK4", "W0|s1c|invK3", "W0|e0c|invK3")
	for _, w := range []string{"W0", "W0+third-service", "W0+mutation-second-service", "W0+entity-list-self", "W0+n2-backref-list", "W0+value-type-entity-ref", "Wmin"} {
		for _, c := range []string{"e0p", "e0pm1", "e0pm2", "e0c"} {
			jobs = append(jobs, w+"|"+c+"|errK3")
		}
	}
	jobs = append(jobs, "W0|e0p|errK4")
	return jobs
}

func errEqual(want map[string]interface{}, got map[string]interface{}) bool {
	return got["message"] == want["message"] && reflect.DeepEqual(got["extensions"], want["extensions"]) && reflect.DeepEqual(got["path"], want["path"])
}

func init() {
	Props["C10"] = &Prop{
		ID:    "C10",
		Level: "exploration",
		Rule: "part 1 (inv): for every valid operation with <=K fields, every single invalidating mutation (20 kinds: unknown field/type condition/argument/directive, wrong literal, undeclared/unused/mistyped variable, " +
			"required argument removed, scalar with / object without selection, fragment cycle, unknown fragment, duplicate/ambiguous/unknown operation name, a name for an anonymous operation, conflicting response keys, wrong root type, syntax error) at every position; " +
			"mutants that stay valid are skipped; operation-name mutations are sent after a valid request with the same document text; oracle: no downstream request, errors non-empty, data null, status 200; each invalid operation is also sent as the second and as the first entry of a client batch next to a valid one (answers stay at their positions, the valid one keeps its data, downstream requests only for the valid one), and as the unselected sibling operation of a valid one in the same document (operationName selects the valid one: the document is invalid as a whole). " +
			"part 2 (err): for every operation with <=K fields, a GraphQL error payload (1 or 2 errors, also two with the same message; unicode message, nested extensions, path, locations; extensions without a `code`; no extensions and no path at all) injected at every downstream call and every position of its batch; " +
			"oracle: every downstream error is in the client's errors with equal message, extensions and path; non-trivial = invalid-by-validator (part 1) / fault actually hit a sub-request (part 2)",
		Assumptions: []string{"gqlparser's validator on the merged schema defines 'invalid'", "the in-memory services log every request they receive"},
		Jobs:        c10Jobs,
		Budget: func(tier string) time.Duration {
			if tier == "quick" {
				return 60 * time.Second
			}
			return 10 * time.Minute
		},
		RunJob: func(tier, job string, from int, em *Emitter) {
			wd, cfg, opset := parseJob(job)
			w, err := wd.Build()
			if err != nil {
				em.GenError("world: " + err.Error())
				return
			}
			f, err := NewFed(w, cfg)
			if err != nil {
				em.GenError("gateway: " + err.Error())
				return
			}
			var k int
			fmt.Sscan(opset[4:], &k)
			ops := GenOps(f.Merged, f.W, k)
			if strings.HasPrefix(opset, "inv") {
				idx := 0
				for _, o := range ops {
					for _, ic := range invalidate(f.Merged, o.Q) {
						idx++
						if idx-1 < from {
							continue
						}
						if !invalidForGateway(f.Merged, ic.Case) {
							em.Extra("mutant-still-valid", 1)
							continue
						}
						rp := replayCase{World: wd.Name(), Cfg: cfg.String(), Query: ic.Q, OpName: ic.OpName, Dec: ic.Dec}
						atoms := append(append([]string{}, w.Atoms...), "invalid-"+ic.Kind)
						if !em.Begin(idx-1, atoms, rp) {
							if em.Capped() {
								return
							}
							continue
						}
						if ic.Warm != nil {
							f.Post(caseBody(*ic.Warm), "application/json")
						}
						f.Fakes.Reset()
						status, body := f.Post(caseBody(ic.Case), "application/json")
						var sigs []string
						if len(f.Fakes.Reqs) > 0 || len(f.Fakes.Calls) > 0 || len(f.Fakes.Other) > 0 {
							sigs = append(sigs, "invalid operation caused a downstream request")
						}
						var resp map[string]interface{}
						if err := json.Unmarshal(body, &resp); err != nil {
							sigs = append(sigs, "response is not a JSON object")
						} else {
							if e, ok := resp["errors"].([]interface{}); !ok || len(e) == 0 {
								sigs = append(sigs, "invalid operation answered without errors")
							}
							if d, has := resp["data"]; !has || d != nil {
								sigs = append(sigs, "invalid operation answered with non-null data")
							}
						}
						if status != 200 {
							sigs = append(sigs, fmt.Sprintf("status %d", status))
						}
						// the same invalid operation as the second and as the first entry of a client batch,
						// next to a valid one: validation answers stay at the position of their operation
						for _, invAt := range []int{1, 0} {
							valid := Case{Q: "{ n1s { id } }"}
							list := []json.RawMessage{caseBody(valid), caseBody(valid)}
							list[invAt] = caseBody(ic.Case)
							bb, _ := json.Marshal(list)
							f.Fakes.Reset()
							_, rb := f.Post(bb, "application/json")
							var res []map[string]interface{}
							if err := json.Unmarshal(rb, &res); err != nil || len(res) != 2 {
								sigs = append(sigs, "batch with an invalid operation is not answered with an array of two objects")
								continue
							}
							for _, sr := range f.Fakes.Reqs {
								if len(sr.Roots) != 1 || sr.Roots[0] != "n1s" {
									sigs = append(sigs, "invalid operation in a batch caused a downstream request")
								}
							}
							inv, ok := res[invAt], res[1-invAt]
							if inv == nil {
								sigs = append(sigs, "invalid operation in a batch got no answer at its position")
							} else {
								if e, has := inv["errors"].([]interface{}); !has || len(e) == 0 {
									sigs = append(sigs, "invalid operation in a batch answered without errors at its position")
								}
								if d, has := inv["data"]; !has || d != nil {
									sigs = append(sigs, "invalid operation in a batch answered with non-null data")
								}
							}
							if ok == nil || ok["data"] == nil || ok["errors"] != nil {
								sigs = append(sigs, "valid operation next to an invalid one in a batch lost its answer")
							}
						}
						// the defect sits in a *sibling* operation of the one that is selected: the document
						// as a whole is invalid, nothing of it may be executed
						if sib := siblingDocument(ic.Q); sib != "" {
							sc := Case{Q: sib, OpName: "Good"}
							if invalidForGateway(f.Merged, sc) {
								f.Fakes.Reset()
								_, sbody := f.Post(caseBody(sc), "application/json")
								if len(f.Fakes.Reqs) > 0 || len(f.Fakes.Calls) > 0 {
									sigs = append(sigs, "a document with an invalid sibling operation caused a downstream request")
								}
								var sresp map[string]interface{}
								if err := json.Unmarshal(sbody, &sresp); err != nil {
									sigs = append(sigs, "response is not a JSON object")
								} else {
									if e, ok := sresp["errors"].([]interface{}); !ok || len(e) == 0 {
										sigs = append(sigs, "a document with an invalid sibling operation answered without errors")
									}
									if d, has := sresp["data"]; !has || d != nil {
										sigs = append(sigs, "a document with an invalid sibling operation answered with non-null data")
									}
								}
								em.Extra("sibling-documents", 1)
							}
						}
						if len(sigs) > 0 {
							em.Fail(atoms, sigs, rp)
						}
						if idx%701 == 0 {
							em.Sample(rp)
						}
						em.Done(true)
					}
				}
				return
			}
			// part 2: error payload passthrough
			idx := 0
			for _, o := range ops {
				if strings.Contains(o.Q, "node(id:") {
					continue
				}
				f.Fakes.FaultFor = nil
				f.Fakes.Reset()
				f.Post(caseBody(o), "application/json")
				calls := append([]HTTPCall{}, f.Fakes.Calls...)
				for ci, hc := range calls {
					for pos := 0; pos < hc.Size; pos++ {
						for _, kind := range []string{"errors1", "errors2", "errors2same", "errors-nocode", "errors-noext"} {
							idx++
							if idx-1 < from {
								continue
							}
							rp := replayCase{World: wd.Name(), Cfg: cfg.String(), Query: o.Q, Extra: fmt.Sprintf("%s at call %d position %d", kind, ci, pos)}
							atoms := append(append([]string{}, w.Atoms...), cfg.Atoms()...)
							atoms = append(atoms, "fault-"+kind)
							if !em.Begin(idx-1, atoms, rp) {
								if em.Capped() {
									return
								}
								continue
							}
							ci, pos, kind := ci, pos, kind
							hit := false
							f.Fakes.Reset()
							f.Fakes.FaultFor = func(c, svc, n int) *Fault {
								if c == ci {
									hit = true
									return &Fault{Kind: kind, Pos: pos}
								}
								return nil
							}
							_, body := f.Post(caseBody(o), "application/json")
							f.Fakes.FaultFor = nil
							var resp map[string]interface{}
							var sigs []string
							if err := json.Unmarshal(body, &resp); err != nil {
								sigs = append(sigs, "response is not a JSON object")
							} else if hit {
								got, _ := resp["errors"].([]interface{})
								n := 1
								if kind == "errors2" || kind == "errors2same" {
									n = 2
								}
								for i := 1; i <= n; i++ {
									want := errPayload(i)
									if kind == "errors2same" {
										want["message"] = errPayload(1)["message"]
									}
									if kind == "errors-nocode" || kind == "errors-noext" {
										want = ErrVariant(kind)
									}
									found := false
									for _, g := range got {
										if gm, ok := g.(map[string]interface{}); ok && errEqual(want, gm) {
											found = true
										}
									}
									if !found {
										sigs = append(sigs, "downstream GraphQL error not preserved in the client's errors (message/extensions/path)")
										break
									}
								}
							}
							if len(sigs) > 0 {
								sort.Strings(sigs)
								em.Fail(atoms, sigs, rp)
							}
							if idx%701 == 0 {
								em.Sample(rp)
							}
							em.Done(hit)
						}
					}
				}
			}
		},
	}
}
