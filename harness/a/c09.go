package a

import (
	"encoding/json"
	"fmt"
	"sort"
	"strings"
	"time"

	"verif/gqlref"
)

// C09: downstream failures are contained and reported, never masked.

// failure signals: the answer itself says "this failed" => errors must be non-empty
var c09Signals = []string{"transport", "transport-eof", "transport-reset", "trailing-garbage", "glued", "errors-empty-datanull", "status500", "status500-validbody", "status300-validbody", "status302-validbody", "status404-validbody", "notjson", "object", "short", "long", "empty", "errors1", "errors2", "errors-nocode", "errors-noext", "errors-null1", "errors-null-nodata", "errors-null2-data", "datanull", "nodata",
	"nonode", "nodestring", "nodelist", "nodenumber"}

// shape faults: values whose shape contradicts the schema => contained, nothing invented
var c09Shapes = []string{"entry-scalar", "entry-null", "obj-scalar", "obj-list", "obj-list2", "obj-list3-null", "obj-empty-list", "list-object", "list-null", "no-id", "foreign-id", "field-null"}

// benign: a healthy answer in an unusual but valid spelling => the client's answer is the fault-free one
var c09Benign = []string{"errors-empty-ok"}

func isSignal(k string) bool {
	for _, s := range c09Signals {
		if s == k {
			return true
		}
	}
	return false
}

func c09Jobs(tier string) []string {
	if tier == "quick" {
		return []string{"W0|e0p|fltK3", "Wmin|e0p|fltK3", "W0+third-service|e0p|fltK2", "W0+entity-list-self|e0p|fltK3", "W0+n2-backref-list|e0p|fltK2",
			"W0+value-type-entity-ref|e0p|fltK3", "W0+mutation-second-service|e0p|fltK2", "W0+union-list|e0p|fltK2", "W0|e0pm1|fltK2", "W0|e0pm2|fltK3", "W0|e1c|fltK2",
			"W0+root-nullable-list+data-null-entries|e0p|fltK2", "W0+value-type-list|e0p|fltK2", "W0+entity-list-nullable|e0p|fltK2",
			"W0+upload-roots+upload-second-service|e0p|uploads"}
	}
	var jobs []string
	for _, w := range EnumWorlds([]string{"Wmin", "W0"}, 1, 0) {
		jobs = append(jobs, w.Name()+"|e0p|fltK3")
	}
	for _, c := range []string{"e0pm1", "e0pm2", "e1c", "s0p"} {
		jobs = append(jobs, "W0|"+c+"|fltK3", "W0+third-service|"+c+"|fltK3")
	}
	jobs = append(jobs, "W0|e0p|fltK4", "W0|e0p|pairK2", "W0+third-service|e0p|pairK2", "W0|e0pm1|pairK2", "W0+upload-roots+upload-second-service|e0p|uploads", "W0+upload-roots|e0pm1|uploads")
	return jobs
}

func c09Check(f *Fed, status int, body []byte, kinds []string, hit bool, applicable bool) []string {
	set := map[string]bool{}
	var resp map[string]interface{}
	if err := json.Unmarshal(body, &resp); err != nil {
		return []string{"response is not a JSON object"}
	}
	_, hasData := resp["data"]
	errs, _ := resp["errors"].([]interface{})
	if !hasData && len(errs) == 0 {
		set["response carries neither data nor errors"] = true
	}
	if status != 200 {
		set[fmt.Sprintf("status %d", status)] = true
	}
	if n := f.Fakes.OpenBodies(); n > 0 {
		set["a downstream response body was never closed (its connection is never released: calls behind it hang once the pool is bounded)"] = true
	}
	if hit && applicable {
		for _, k := range kinds {
			if isSignal(k) && len(errs) == 0 {
				set["failure signal '"+k+"' answered without errors (masked)"] = true
			}
		}
	}
	// taint: every scalar leaf of data was returned by some service in this execution
	if d, ok := resp["data"].(map[string]interface{}); ok {
		leaves := map[string]bool{}
		collectLeaves(d, leaves)
		for l := range leaves {
			if !f.Fakes.Values[l] {
				if l == `"Query"` || l == `"Mutation"` {
					continue
				}
				set["data contains a value no service returned"] = true
			}
		}
	}
	out := make([]string, 0, len(set))
	for k := range set {
		out = append(out, k)
	}
	sort.Strings(out)
	return out
}

func init() {
	Props["C09"] = &Prop{
		ID:    "C09",
		Level: "fault_enumeration",
		Rule: "case = (world, operation with <=K fields, fault kind, position = (index of the downstream HTTP call in the execution, index inside that call's batch)); fault alphabet: 25 failure signals " +
			"(transport error, status 500 with an error body and with a well-formed answer as body, non-JSON body, object instead of array, array short/long/empty, errors x1/x2, errors without code / without extensions, errors lists of null entries (with null, without and with data), connection broken or reset after the call arrived, trailing garbage, two answers glued, empty errors list with null data, data null, no data, node missing/string/list/number) and 10 schema-contradicting shapes " +
			"(list entry scalar/null, scalar, list or empty list for object, object or null for list, entity without id, foreign id, null scalar); thorough adds ordered pairs of faults; the same single faults on the multipart calls of upload requests; oracle: process alive, handler returned, " +
			"well-formed envelope, every downstream response body closed, failure signals => errors non-empty, no value in data that no service returned, and a follow-up request on the same gateway equals its reference; non-trivial = the fault hit a sub-request",
		Assumptions: []string{"single faults (thorough: pairs) on the in-memory transport; operations through the root node() entry point are excluded (C01 finding)",
			"hangs are decided on Engine B; here a watchdog would only report a suspected hang"},
		Jobs: c09Jobs,
		Budget: func(tier string) time.Duration {
			if tier == "quick" {
				return 70 * time.Second
			}
			return 12 * time.Minute
		},
		RunJob: func(tier, job string, from int, em *Emitter) {
			wd, cfg, opset := parseJob(job)
			w, err := wd.Build()
			if err != nil {
				em.GenError("world: " + err.Error())
				return
			}
			f, err := NewFed(w, cfg)
			if err != nil {
				em.GenError("gateway: " + err.Error())
				return
			}
			f.Fakes.Taint = true
			if opset == "uploads" {
				c09Uploads(f, wd, cfg, from, em)
				return
			}
			var k int
			pairs := strings.HasPrefix(opset, "pair")
			fmt.Sscan(opset[len(opset)-1:], &k)
			ops := GenOps(f.Merged, f.W, k)
			follow := Case{Q: "{ n1s { id name phone } }", Vars: map[string]interface{}{}}
			kindsAll := append(append(append([]string{}, c09Signals...), c09Shapes...), c09Benign...)
			idx := 0
			for _, o := range ops {
				if strings.Contains(o.Q, "node(id:") {
					continue
				}
				f.Fakes.FaultFor = nil
				f.Fakes.Reset()
				_, body0 := f.Post(caseBody(o), "application/json")
				calls := append([]HTTPCall{}, f.Fakes.Calls...)
				type fpos struct {
					call, pos int
					kind      string
				}
				var plans [][]fpos
				for ci, hc := range calls {
					for pos := 0; pos < hc.Size; pos++ {
						for _, kind := range kindsAll {
							if pos > 0 && (kind == "transport" || kind == "transport-eof" || kind == "transport-reset" || kind == "trailing-garbage" || kind == "glued" || kind == "status500" || strings.HasSuffix(kind, "-validbody") || kind == "notjson" || kind == "object" || kind == "short" || kind == "long" || kind == "empty") {
								continue // call-level faults do not depend on the position
							}
							plans = append(plans, []fpos{{ci, pos, kind}})
						}
					}
				}
				if pairs {
					var pp [][]fpos
					for _, a := range plans {
						for _, b := range plans {
							if b[0].call > a[0].call {
								pp = append(pp, []fpos{a[0], b[0]})
							}
						}
					}
					plans = pp
				}
				for _, plan := range plans {
					idx++
					if idx-1 < from {
						continue
					}
					var desc []string
					var kinds []string
					atoms := append(append([]string{}, w.Atoms...), cfg.Atoms()...)
					for _, p := range plan {
						desc = append(desc, fmt.Sprintf("%s at call %d position %d", p.kind, p.call, p.pos))
						kinds = append(kinds, p.kind)
						atoms = append(atoms, "fault-"+p.kind)
					}
					if calls[plan[0].call].Size > 1 {
						atoms = append(atoms, "fault-in-batch>1")
					}
					if plan[0].call > 0 {
						atoms = append(atoms, "fault-in-later-call")
					}
					rp := replayCase{World: wd.Name(), Cfg: cfg.String(), Query: o.Q, Extra: strings.Join(desc, "; ")}
					if !em.Begin(idx-1, atoms, rp) {
						if em.Capped() {
							return
						}
						continue
					}
					hit := false
					f.Fakes.Reset()
					f.Fakes.FaultFor = func(c, svc, n int) *Fault {
						for _, p := range plan {
							if p.call == c {
								hit = true
								return &Fault{Kind: p.kind, Pos: p.pos}
							}
						}
						return nil
					}
					status, body := f.Post(caseBody(o), "application/json")
					f.Fakes.FaultFor = nil
					applied := f.Fakes.FaultsApplied == len(plan)
					if !applied {
						// the fault had nothing to act on in this answer (e.g. no `node` key): not a case
						em.Extra("fault-not-applicable", 1)
						em.Done(false)
						continue
					}
					sigs := c09Check(f, status, body, kinds, hit, applied)
					if len(plan) == 1 && plan[0].kind == "errors-empty-ok" && canonJSON(body) != canonJSON(body0) {
						sigs = append(sigs, "a healthy answer that carries an empty errors list changes the client's answer")
					}
					// later requests are unaffected
					fo := f.Run(follow)
					if fs := c01Sigs(fo); len(fs) > 0 {
						sigs = append(sigs, "follow-up request after the fault differs from its reference: "+fs[0])
					}
					if len(sigs) > 0 {
						em.Fail(atoms, sigs, rp)
					}
					if idx%1499 == 0 {
						em.Sample(rp)
					}
					em.Done(hit)
				}
			}
			_ = gqlref.Norm
		},
	}
}

func canonJSON(b []byte) string {
	var v interface{}
	if json.Unmarshal(b, &v) != nil {
		return string(b)
	}
	o, _ := json.Marshal(gqlref.Norm(v))
	return string(o)
}

// c09Uploads: the same fault alphabet on the downstream calls of multipart (upload) requests - the queryer sends
// a sub-request that carries files on a path of its own (one multipart call per request, the answer is a single object).
func c09Uploads(f *Fed, wd WorldDesc, cfg Config, from int, em *Emitter) {
	var kindsAll []string
	for _, k := range append(append([]string{}, c09Signals...), c09Shapes...) {
		switch k {
		case "object", "short", "long", "empty":
			// shapes of the batch array: the answer to a multipart call is a single object anyway
			continue
		}
		kindsAll = append(kindsAll, k)
	}
	idx := 0
	seenOp := map[string]bool{}
	for _, l := range upLayouts("quick", strings.Contains(wd.Name(), "upload-second-service")) {
		if len(l.Ops) != 1 || len(l.Files) == 0 || seenOp[l.Ops[0].Q] {
			continue
		}
		seenOp[l.Ops[0].Q] = true // one layout per operation: which slots carry files does not change the calls
		if d, _ := f.load(l.Ops[0].Q); d == nil {
			continue
		}
		body, ct := l.body()
		f.Fakes.FaultFor = nil
		f.Fakes.Reset()
		f.Post([]byte(body), ct)
		calls := append([]HTTPCall{}, f.Fakes.Calls...)
		for ci, hc := range calls {
			if !hc.Multi {
				continue
			}
			for _, kind := range kindsAll {
				idx++
				if idx-1 < from {
					continue
				}
				kind, ci := kind, ci
				atoms := append(append([]string{}, f.W.Atoms...), cfg.Atoms()...)
				atoms = append(atoms, "fault-"+kind, "multipart-call")
				rp := map[string]interface{}{"world": wd.Name(), "cfg": cfg.String(), "layout": l.Desc, "fault": fmt.Sprintf("%s at call %d", kind, ci)}
				if !em.Begin(idx-1, atoms, rp) {
					if em.Capped() {
						return
					}
					continue
				}
				f.Fakes.Reset()
				f.Fakes.FaultFor = func(c, svc, n int) *Fault {
					if c == ci {
						return &Fault{Kind: kind, Pos: 0}
					}
					return nil
				}
				status, rb := f.Post([]byte(body), ct)
				f.Fakes.FaultFor = nil
				if f.Fakes.FaultsApplied != 1 {
					em.Extra("fault-not-applicable", 1)
					em.Done(false)
					continue
				}
				if sigs := c09Check(f, status, rb, []string{kind}, true, true); len(sigs) > 0 {
					em.Fail(atoms, sigs, rp)
				}
				em.Done(true)
			}
		}
	}
}
