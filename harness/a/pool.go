package a

import (
	"bufio"
	"bytes"
	"encoding/json"
	"fmt"
	"os"
	"os/exec"
	"path/filepath"
	"regexp"
	"runtime"
	"sort"
	"strings"
	"sync"
	"time"

	"verif/evidence"
	"verif/findings"
)

// Prop is one Engine-A property check: a deterministic list of jobs, each a deterministic
// sequence of cases executed in crash-isolating worker subprocesses.
type Prop struct {
	ID          string
	Level       string // exploration | fault_enumeration
	Rule        string
	Assumptions []string
	Jobs        func(tier string) []string                    // job names (deterministic)
	RunJob      func(tier, job string, from int, em *Emitter) // worker side
	Budget      func(tier string) time.Duration
	Workers     int
	// Key: the name the check is registered under if it differs from the property id (a
	// complement pass of a property that has a main check of its own)
	Key string
}

func (p *Prop) key() string {
	if p.Key != "" {
		return p.Key
	}
	return p.ID
}

var Props = map[string]*Prop{}

type group struct {
	Sig     string      `json:"sig"`
	Atoms   []string    `json:"atoms"`
	Count   int         `json:"count"`
	Example interface{} `json:"example"`
	Job     string      `json:"job"`
}

type summary struct {
	Job        string         `json:"job"`
	Cases      int            `json:"cases"`
	NonTrivial int            `json:"nontrivial"`
	GenErrors  int            `json:"generr"`
	GenExample string         `json:"genexample"`
	Skipped    int            `json:"skipped"`
	Capped     bool           `json:"capped"`
	Samples    []interface{}  `json:"samples"`
	Extra      map[string]int `json:"extra"`
}

// Emitter is the worker-side reporting interface.
type Emitter struct {
	w         *bufio.Writer
	job       string
	seen      map[string]bool
	sum       summary
	deadline  time.Time
	saturated map[string]bool
	fs        *findings.Set
	prop      string
	n         int
	// replay mode: run only the case whose replay description equals target
	replayTarget string
	replaySigs   []string
	replayHit    bool
}

// Begin announces the case about to run (crash attribution).  It returns false if the
// case must be skipped (deadline, or it matches a saturated crashing known finding).
func (e *Emitter) Begin(idx int, atoms []string, replay interface{}) bool {
	if e.replayTarget != "" {
		b, _ := json.Marshal(replay)
		var norm interface{}
		json.Unmarshal(b, &norm)
		nb, _ := json.Marshal(norm)
		if string(nb) != e.replayTarget || e.replayHit {
			return false
		}
		e.replayHit = true
		return true
	}
	e.n++
	if e.n%64 == 0 && time.Now().After(e.deadline) {
		e.sum.Capped = true
	}
	if e.sum.Capped {
		return false
	}
	if len(e.saturated) > 0 {
		for _, en := range e.fs.Entries {
			if en.Property == e.prop && en.Status == "known" && e.saturated[en.ID] && containsAll(atoms, en.Atoms) && !containsAny(atoms, en.NotAtoms) {
				e.sum.Skipped++
				return false
			}
		}
	}
	b, _ := json.Marshal(replay)
	fmt.Fprintf(e.w, "B %d\t%s\t%s\n", idx, strings.Join(atoms, ","), b)
	e.w.Flush()
	return true
}

func containsAll(have, want []string) bool {
	m := map[string]bool{}
	for _, a := range have {
		m[a] = true
	}
	for _, a := range want {
		if !m[a] {
			return false
		}
	}
	return true
}

func containsAny(have, any []string) bool {
	m := map[string]bool{}
	for _, a := range have {
		m[a] = true
	}
	for _, a := range any {
		if m[a] {
			return true
		}
	}
	return false
}

func (e *Emitter) Capped() bool { return e.sum.Capped }

// Done records a finished case.
func (e *Emitter) Done(nontrivial bool) {
	if e.replayTarget != "" {
		return
	}
	if nontrivial {
		e.w.WriteString("E 1\n")
	} else {
		e.w.WriteString("E 0\n")
	}
}

func (e *Emitter) GenError(msg string) {
	e.sum.GenErrors++
	if e.sum.GenExample == "" {
		e.sum.GenExample = msg
	}
}

func (e *Emitter) Extra(k string, n int) {
	if e.sum.Extra == nil {
		e.sum.Extra = map[string]int{}
	}
	e.sum.Extra[k] += n
}

func (e *Emitter) Sample(v interface{}) {
	if len(e.sum.Samples) < 2 {
		e.sum.Samples = append(e.sum.Samples, v)
	}
}

// Fail records failure signatures of the current case.
func (e *Emitter) Fail(atoms []string, sigs []string, replay interface{}) {
	if e.replayTarget != "" {
		e.replaySigs = append(e.replaySigs, sigs...)
		return
	}
	for _, s := range sigs {
		k := s + "\x00" + strings.Join(atoms, ",")
		g := &group{Sig: s, Atoms: atoms, Job: e.job, Count: 1}
		if !e.seen[k] {
			e.seen[k] = true
			g.Example = replay
		}
		b, _ := json.Marshal(g)
		fmt.Fprintf(e.w, "G %s\n", b)
	}
}

func (e *Emitter) finish() {
	e.sum.Job = e.job
	b, _ := json.Marshal(e.sum)
	fmt.Fprintf(e.w, "S %s\n", b)
	e.w.Flush()
}

type jobMsg struct {
	Job       string   `json:"job"`
	From      int      `json:"from"`
	Saturated []string `json:"saturated"`
}

// Worker is the subprocess main loop.
func Worker(p *Prop, tier string, deadline time.Time) {
	fs, _ := findings.Load()
	in := bufio.NewScanner(os.Stdin)
	in.Buffer(make([]byte, 1<<20), 1<<24)
	w := bufio.NewWriterSize(os.Stdout, 1<<16)
	for in.Scan() {
		var m jobMsg
		if json.Unmarshal(in.Bytes(), &m) != nil {
			continue
		}
		em := &Emitter{w: w, job: m.Job, seen: map[string]bool{}, deadline: deadline, fs: fs, prop: p.ID, saturated: map[string]bool{}}
		for _, s := range m.Saturated {
			em.saturated[s] = true
		}
		p.RunJob(tier, m.Job, m.From, em)
		em.finish()
	}
}

var (
	rePanic = regexp.MustCompile(`(?m)^(panic: .*|fatal error: .*)$`)
	reFrame = regexp.MustCompile(`(?m)^\s+` + regexp.QuoteMeta(repoDir()) + `/([^\s:]+):(\d+)`)
	reAddr  = regexp.MustCompile(`0x[0-9a-f]+`)
)

// repoDir is the tree under test (always /repo for the registered commands; VERIF_REPO lets
// experiments run against a scratch worktree).
func repoDir() string {
	if d := os.Getenv("VERIF_REPO"); d != "" {
		return strings.TrimSuffix(d, "/")
	}
	return "/repo"
}

func crashSig(stderr string) string {
	msg := "unknown crash"
	if m := rePanic.FindString(stderr); m != "" {
		msg = m
	}
	msg = reAddr.ReplaceAllString(msg, "0xX")
	if i := strings.Index(msg, " [recovered]"); i > 0 {
		msg = msg[:i]
	}
	frame := "?"
	if m := reFrame.FindStringSubmatch(stderr); m != nil {
		frame = m[1] + ":" + m[2]
	}
	return "crash: " + Template(msg) + " @ " + frame
}

// Main runs the whole property check in the parent process.
func Main(p *Prop, tier string) int {
	start := time.Now()
	budget := 10 * time.Minute
	if p.Budget != nil {
		budget = p.Budget(tier)
	}
	deadline := start.Add(budget)
	jobs := p.Jobs(tier)
	fs, err := findings.Load()
	if err != nil {
		fmt.Println("ERROR harness:", err)
		return 2
	}
	nw := p.Workers
	if nw == 0 {
		nw = runtime.NumCPU()
	}
	if nw > len(jobs) {
		nw = len(jobs)
	}
	var mu sync.Mutex
	var groups []*group
	var sums []summary
	crashCount := map[string]int{} // known entry id -> crashes seen
	nCases, nNonTrivial := 0, 0
	saturated := func() []string {
		var out []string
		for id, n := range crashCount {
			limit := 25
			if tier == "thorough" {
				limit = 200
			}
			if n >= limit {
				out = append(out, id)
			}
		}
		return out
	}
	next := 0
	var harnessErr string
	take := func() (string, bool) {
		mu.Lock()
		defer mu.Unlock()
		if next >= len(jobs) {
			return "", false
		}
		next++
		return jobs[next-1], true
	}
	var wg sync.WaitGroup
	for wi := 0; wi < nw; wi++ {
		wg.Add(1)
		go func() {
			defer wg.Done()
			var cmd *exec.Cmd
			var stdin *bufio.Writer
			var out *bufio.Scanner
			var stderr *bytes.Buffer
			startW := func() error {
				cmd = exec.Command(os.Args[0], "-worker", "-deadline", fmt.Sprint(deadline.Unix()), p.key(), tier)
				cmd.Env = append(os.Environ(), "GOMAXPROCS=2", "GOTRACEBACK=all")
				stderr = &bytes.Buffer{}
				cmd.Stderr = stderr
				pi, _ := cmd.StdinPipe()
				po, _ := cmd.StdoutPipe()
				stdin = bufio.NewWriter(pi)
				out = bufio.NewScanner(po)
				out.Buffer(make([]byte, 1<<20), 1<<26)
				return cmd.Start()
			}
			if err := startW(); err != nil {
				mu.Lock()
				harnessErr = err.Error()
				mu.Unlock()
				return
			}
			defer func() {
				cmd.Process.Kill()
				cmd.Wait()
			}()
			for {
				job, ok := take()
				if !ok {
					return
				}
				from := 0
				restarts := 0
				for {
					mu.Lock()
					sat := saturated()
					mu.Unlock()
					b, _ := json.Marshal(jobMsg{Job: job, From: from, Saturated: sat})
					stdin.Write(b)
					stdin.WriteString("\n")
					stdin.Flush()
					lastIdx, lastAtoms, lastReplay := -1, "", ""
					finished := false
					for out.Scan() {
						line := out.Text()
						if len(line) < 2 {
							continue
						}
						switch line[0] {
						case 'B':
							parts := strings.SplitN(line[2:], "\t", 3)
							fmt.Sscan(parts[0], &lastIdx)
							if len(parts) == 3 {
								lastAtoms, lastReplay = parts[1], parts[2]
							}
						case 'E':
							mu.Lock()
							nCases++
							if line == "E 1" {
								nNonTrivial++
							}
							mu.Unlock()
						case 'G':
							var g group
							if json.Unmarshal([]byte(line[2:]), &g) == nil {
								mu.Lock()
								groups = append(groups, &g)
								mu.Unlock()
							}
						case 'S':
							var s summary
							if json.Unmarshal([]byte(line[2:]), &s) == nil {
								mu.Lock()
								sums = append(sums, s)
								mu.Unlock()
							}
							finished = true
						}
						if finished {
							break
						}
					}
					if finished {
						break
					}
					// the worker died: attribute the crash to the case in flight
					cmd.Wait()
					se := stderr.String()
					sig := crashSig(se)
					var atoms []string
					if lastAtoms != "" {
						atoms = strings.Split(lastAtoms, ",")
					}
					var rp interface{}
					json.Unmarshal([]byte(lastReplay), &rp)
					mu.Lock()
					if lastIdx < 0 {
						harnessErr = fmt.Sprintf("worker died before starting a case of job %s: %s", job, firstLines(se, 6))
					}
					if strings.HasSuffix(sig, "@ ?") && !strings.Contains(se, repoDir()+"/") {
						harnessErr = fmt.Sprintf("worker crashed outside the code under test (job %s, case %d): %s", job, lastIdx, firstLines(se, 12))
					}
					groups = append(groups, &group{Sig: sig, Atoms: atoms, Count: 1, Example: rp, Job: job})
					nCases++
					nNonTrivial++
					if e := fs.Match(p.ID, atoms, sig); e != nil {
						crashCount[e.ID]++
					}
					mu.Unlock()
					restarts++
					if lastIdx < 0 || restarts > 5000 {
						return
					}
					from = lastIdx + 1
					if err := startW(); err != nil {
						mu.Lock()
						harnessErr = err.Error()
						mu.Unlock()
						return
					}
				}
			}
		}()
	}
	wg.Wait()
	if harnessErr != "" {
		fmt.Println("ERROR harness:", harnessErr)
		return 2
	}

	// race complement pass: the binary was built with -race and its workers ran free (real goroutines);
	// every reported data race that involves the code under test counts as a failing group
	raceReportsSeen := -1
	if dir := os.Getenv("VERIF_RACE_LOGS"); dir != "" {
		reps := raceReports(dir)
		raceReportsSeen = len(reps)
		for _, r := range reps {
			groups = append(groups, &group{Sig: "data race: " + r.sig, Atoms: []string{"race-pass"}, Count: 1, Example: map[string]interface{}{"race_report": r.text}, Job: "race"})
		}
	}

	// aggregate
	tot := summary{Extra: map[string]int{}}
	if raceReportsSeen >= 0 {
		tot.Extra["distinct-data-races-in-code-under-test"] = raceReportsSeen
	}
	capped := false
	var samples []interface{}
	tot.Cases, tot.NonTrivial = nCases, nNonTrivial
	for _, s := range sums {
		tot.GenErrors += s.GenErrors
		tot.Skipped += s.Skipped
		if tot.GenExample == "" {
			tot.GenExample = s.GenExample
		}
		capped = capped || s.Capped
		for k, v := range s.Extra {
			tot.Extra[k] += v
		}
		if len(samples) < 5 {
			samples = append(samples, s.Samples...)
		}
	}
	// merge groups by (sig, atoms)
	merged := map[string]*group{}
	for _, g := range groups {
		k := g.Sig + "\x00" + strings.Join(g.Atoms, ",")
		if m, ok := merged[k]; ok {
			m.Count += g.Count
			if m.Example == nil {
				m.Example = g.Example
			}
		} else {
			cp := *g
			merged[k] = &cp
		}
	}
	keys := make([]string, 0, len(merged))
	for k := range merged {
		keys = append(keys, k)
	}
	sort.Strings(keys)
	violations := 0
	failingCases := 0
	var vio []string
	bySig := map[string]int{}
	for _, k := range keys {
		g := merged[k]
		failingCases += g.Count
		if strings.HasPrefix(g.Sig, "crash:") {
			// crashes were already matched once while running; count without double hit
		}
		if e := fs.Match(p.ID, g.Atoms, g.Sig); e != nil {
			continue
		}
		bySig[g.Sig] += g.Count
		if violations < 12 {
			name := fmt.Sprintf("%d", violations+1)
			if part := os.Getenv("VERIF_EVIDENCE_PART"); part != "" {
				name = part + "-" + name // the parts of one property keep their replay files apart
			}
			path := evidence.WriteReplay(p.ID, name, map[string]interface{}{"property": p.ID, "signature": g.Sig, "atoms": g.Atoms,
				"count": g.Count, "job": g.Job, "case": g.Example, "replay": fmt.Sprintf("./check %s %s --replay <this file>", p.ID, tier)})
			vio = append(vio, fmt.Sprintf("VIOLATION property=%s replay=%s", p.ID, path))
			fmt.Printf("  violation: %s\n    atoms: %s\n    cases: %d, e.g. %s\n", g.Sig, strings.Join(g.Atoms, ","), g.Count, short(g.Example))
		}
		violations++
	}
	if os.Getenv("VERIF_TRIAGE") != "" {
		triage(merged, fs, p.ID)
	}
	known := fs.Report(p.ID)
	if tot.GenErrors > 0 {
		fmt.Printf("note: %d generated cases were invalid by the generator's own slip (not violations), e.g. %s\n", tot.GenErrors, tot.GenExample)
	}
	if len(samples) == 0 {
		samples = append(samples, "no samples")
	}
	ev := &evidence.File{PropertyID: p.ID, Tier: tier, Level: p.Level, Assumptions: p.Assumptions, Violations: violations, KnownFindings: known}
	nt := tot.NonTrivial
	ev.Coverage = map[string]interface{}{
		"evaluations":                 tot.Cases,
		"distinct_nontrivial":         nt,
		"rule":                        p.Rule,
		"samples":                     samples,
		"exhaustive":                  !capped,
		"jobs":                        len(jobs),
		"failing_cases_total":         failingCases,
		"failure_groups":              len(merged),
		"unlisted_failure_signatures": bySig,
		"skipped_matching_saturated_crash_finding": tot.Skipped,
		"generator_invalid":                        tot.GenErrors,
		"extra":                                    tot.Extra,
		"deadline_hit":                             capped,
	}
	if err := ev.Write(start); err != nil {
		fmt.Println("ERROR harness:", err)
		return 2
	}
	fmt.Printf("%s %s: jobs=%d cases=%d nontrivial=%d failing=%d groups=%d unlisted=%d exhaustive=%v wall=%.1fs\n",
		p.ID, tier, len(jobs), tot.Cases, nt, failingCases, len(merged), violations, !capped, time.Since(start).Seconds())
	for _, l := range vio {
		fmt.Println(l)
	}
	if violations > 0 {
		return 1
	}
	return 0
}

func firstLines(s string, n int) string {
	l := strings.Split(s, "\n")
	if len(l) > n {
		l = l[:n]
	}
	return strings.Join(l, " | ")
}

func short(v interface{}) string {
	b, _ := json.Marshal(v)
	if len(b) > 300 {
		return string(b[:300]) + "…"
	}
	return string(b)
}

// triage prints failure groups clustered by signature with the atoms common to all cases
// of the cluster (development aid for writing known-finding predicates).
func triage(merged map[string]*group, fs *findings.Set, prop string) {
	type cl struct {
		sig    string
		n      int
		common map[string]bool
		union  map[string]int
		ex     []interface{}
		known  string
	}
	cls := map[string]*cl{}
	for _, g := range merged {
		kn := ""
		if e := fs.Match(prop, g.Atoms, g.Sig); e != nil {
			kn = e.ID
		}
		key := g.Sig + "|" + kn
		c := cls[key]
		if c == nil {
			c = &cl{sig: g.Sig, common: map[string]bool{}, union: map[string]int{}, known: kn}
			for _, a := range g.Atoms {
				c.common[a] = true
			}
			cls[key] = c
		}
		have := map[string]bool{}
		for _, a := range g.Atoms {
			have[a] = true
			c.union[a] += g.Count
		}
		for a := range c.common {
			if !have[a] {
				delete(c.common, a)
			}
		}
		c.n += g.Count
		if len(c.ex) < 3 && g.Example != nil {
			c.ex = append(c.ex, g.Example)
		}
	}
	var list []*cl
	for _, c := range cls {
		list = append(list, c)
	}
	sort.Slice(list, func(i, j int) bool { return list[i].n > list[j].n })
	fmt.Println("==== TRIAGE ====")
	for _, c := range list {
		var cm []string
		for a := range c.common {
			cm = append(cm, a)
		}
		sort.Strings(cm)
		type kv struct {
			k string
			v int
		}
		var un []kv
		for a, n := range c.union {
			if !c.common[a] {
				un = append(un, kv{a, n})
			}
		}
		sort.Slice(un, func(i, j int) bool { return un[i].v > un[j].v })
		var us []string
		for i, x := range un {
			if i >= 12 && !strings.HasPrefix(x.k, "conflict-") {
				continue
			}
			us = append(us, fmt.Sprintf("%s:%d", x.k, x.v))
		}
		fmt.Printf("%6d  [%s] %s\n        common: %s\n        other:  %s\n", c.n, c.known, c.sig, strings.Join(cm, ","), strings.Join(us, " "))
		for _, e := range c.ex {
			fmt.Printf("        e.g. %s\n", short(e))
		}
	}
}

type raceReport struct{ sig, text string }

// raceReports parses the race detector's log files and keeps one report per distinct pair of
// top frames inside the code under test.
func raceReports(dir string) []raceReport {
	files, _ := filepath.Glob(filepath.Join(dir, "*"))
	seen := map[string]bool{}
	var out []raceReport
	for _, f := range files {
		b, err := os.ReadFile(f)
		if err != nil {
			continue
		}
		for _, blk := range strings.Split(string(b), "==================") {
			if !strings.Contains(blk, "WARNING: DATA RACE") {
				continue
			}
			var frames []string
			for _, ln := range strings.Split(blk, "\n") {
				ln = strings.TrimSpace(ln)
				if strings.HasPrefix(ln, repoDir()+"/") && !strings.Contains(ln, "/vrt/") {
					if i := strings.Index(ln, " "); i > 0 {
						ln = ln[:i]
					}
					frames = append(frames, strings.TrimPrefix(ln, repoDir()+"/"))
				}
			}
			if len(frames) == 0 {
				continue // a race inside the harness itself is not the code's
			}
			if len(frames) > 2 {
				frames = frames[:2]
			}
			sig := strings.Join(frames, " <-> ")
			if seen[sig] {
				continue
			}
			seen[sig] = true
			if len(blk) > 6000 {
				blk = blk[:6000]
			}
			out = append(out, raceReport{sig, blk})
		}
	}
	sort.Slice(out, func(i, j int) bool { return out[i].sig < out[j].sig })
	return out
}
