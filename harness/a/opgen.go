package a

import (
	"bytes"
	"fmt"
	"sort"
	"strings"

	"github.com/vektah/gqlparser/v2/ast"
	"github.com/vektah/gqlparser/v2/formatter"
	"github.com/vektah/gqlparser/v2/parser"
)

// Case is one client operation with variables.
type Case struct {
	Q      string
	Vars   map[string]interface{}
	Dec    string // decoration label ("plain" for undecorated)
	OpName string
}

type sel struct {
	s string
	n int
}

type opGen struct {
	s    *ast.Schema
	w    *World
	memo map[string][]sel
}

func (g *opGen) literal(t *ast.Type, argName string) string {
	if t.Elem != nil {
		return "[" + g.literal(t.Elem, argName) + "]"
	}
	switch t.Name() {
	case "ID":
		return fmt.Sprintf("%q", g.w.EntityID("N1", 1))
	case "Int":
		return "3"
	case "Float":
		return "1.5"
	case "String":
		return `"s"`
	case "Boolean":
		return "true"
	}
	d := g.s.Types[t.Name()]
	if d == nil {
		return "null"
	}
	switch d.Kind {
	case ast.Enum:
		return d.EnumValues[len(d.EnumValues)-1].Name
	case ast.InputObject:
		var parts []string
		for _, f := range d.Fields {
			if f.Type.Name() == d.Name {
				continue
			}
			parts = append(parts, f.Name+": "+g.literal(f.Type, f.Name))
		}
		return "{" + strings.Join(parts, ", ") + "}"
	case ast.Scalar:
		if d.Name == "Upload" {
			return "null"
		}
		return `"2020-01-01"`
	}
	return "null"
}

func (g *opGen) argLit(fd *ast.FieldDefinition) []string {
	if len(fd.Arguments) == 0 {
		return []string{""}
	}
	var req, all []string
	for _, a := range fd.Arguments {
		lit := g.literal(a.Type, a.Name)
		all = append(all, a.Name+": "+lit)
		if a.Type.NonNull && a.DefaultValue == nil {
			req = append(req, a.Name+": "+lit)
		}
	}
	out := []string{"(" + strings.Join(all, ", ") + ")"}
	if len(req) == 0 {
		out = append(out, "")
	} else if len(req) != len(all) {
		out = append(out, "("+strings.Join(req, ", ")+")")
	}
	return out
}

// gen returns all selection sets (without braces) on type t using between 1 and budget
// fields, nesting at most depth levels.
func (g *opGen) gen(t string, budget, depth int) []sel {
	if budget <= 0 || depth <= 0 {
		return nil
	}
	mk := fmt.Sprintf("%s/%d/%d", t, budget, depth)
	if v, ok := g.memo[mk]; ok {
		return v
	}
	def := g.s.Types[t]
	var out []sel
	if def.Kind == ast.Union || def.Kind == ast.Interface {
		pts := g.s.PossibleTypes[t]
		for i, p := range pts {
			for _, a := range g.gen(p.Name, budget, depth) {
				out = append(out, sel{fmt.Sprintf("... on %s { %s }", p.Name, a.s), a.n})
				if a.n+1 <= budget {
					out = append(out, sel{fmt.Sprintf("__typename ... on %s { %s }", p.Name, a.s), a.n + 1})
				}
				for _, q := range pts[i+1:] {
					for _, b := range g.gen(q.Name, budget-a.n, depth) {
						out = append(out, sel{fmt.Sprintf("... on %s { %s } ... on %s { %s }", p.Name, a.s, q.Name, b.s), a.n + b.n})
					}
				}
			}
		}
		out = append(out, sel{"__typename", 1})
		if def.Kind == ast.Interface {
			// fields selected directly on the interface
			for _, x := range g.genObject(def, budget, depth) {
				out = append(out, x)
			}
		}
		g.memo[mk] = out
		return out
	}
	out = g.genObject(def, budget, depth)
	g.memo[mk] = out
	return out
}

func (g *opGen) genObject(def *ast.Definition, budget, depth int) []sel {
	var fields []*ast.FieldDefinition
	for _, f := range def.Fields {
		if strings.HasPrefix(f.Name, "__") {
			continue
		}
		fields = append(fields, f)
	}
	var rec func(i, budget int) []sel
	rec = func(i, budget int) []sel {
		if i == len(fields) {
			return []sel{{"", 0}}
		}
		rest := rec(i+1, budget)
		out := append([]sel{}, rest...)
		if budget <= 0 {
			return out
		}
		f := fields[i]
		ft := g.s.Types[f.Type.Name()]
		var opts []sel
		for _, al := range g.argLit(f) {
			if ft.Kind == ast.Object || ft.Kind == ast.Interface || ft.Kind == ast.Union {
				for _, sub := range g.gen(ft.Name, budget-1, depth-1) {
					opts = append(opts, sel{fmt.Sprintf("%s%s { %s }", f.Name, al, sub.s), 1 + sub.n})
				}
			} else {
				opts = append(opts, sel{f.Name + al, 1})
			}
		}
		for _, o := range opts {
			for _, r := range rec(i+1, budget-o.n) {
				out = append(out, sel{strings.TrimSpace(o.s + " " + r.s), o.n + r.n})
			}
		}
		return out
	}
	var out []sel
	for _, x := range rec(0, budget) {
		if x.n > 0 {
			out = append(out, x)
		}
	}
	return out
}

// GenOps enumerates every query and mutation with at most K selected fields, shortest first.
func GenOps(s *ast.Schema, w *World, K int, kinds ...ast.Operation) []Case {
	g := &opGen{s: s, w: w, memo: map[string][]sel{}}
	if len(kinds) == 0 {
		kinds = []ast.Operation{ast.Query, ast.Mutation}
	}
	var ops []string
	depth := 4
	if K >= 7 {
		depth = 7 // only the tiny worlds are enumerated this deep
	}
	for _, k := range kinds {
		switch k {
		case ast.Query:
			if s.Query == nil {
				continue
			}
			for _, x := range g.gen(s.Query.Name, K, depth) {
				ops = append(ops, "{ "+x.s+" }")
			}
		case ast.Mutation:
			if s.Mutation != nil {
				for _, x := range g.gen(s.Mutation.Name, K, depth) {
					ops = append(ops, "mutation { "+x.s+" }")
				}
			}
		case ast.Subscription:
			if s.Subscription != nil {
				for _, x := range g.gen(s.Subscription.Name, K, 4) {
					// a subscription has exactly one root field
					if strings.Count(topLevel(x.s), "\x00") == 0 {
						ops = append(ops, "subscription { "+x.s+" }")
					}
				}
			}
		}
	}
	sort.SliceStable(ops, func(i, j int) bool { return len(ops[i]) < len(ops[j]) })
	out := make([]Case, len(ops))
	for i, o := range ops {
		out[i] = Case{Q: o, Vars: map[string]interface{}{}, Dec: "plain"}
	}
	return out
}

// topLevel replaces top-level field separators by \x00 so they can be counted.
func topLevel(s string) string {
	depth, paren := 0, 0
	var b strings.Builder
	for i := 0; i < len(s); i++ {
		c := s[i]
		switch c {
		case '{':
			depth++
		case '}':
			depth--
		case '(':
			paren++
		case ')':
			paren--
		}
		if c == ' ' && depth == 0 && paren == 0 && i+1 < len(s) && s[i+1] != '{' {
			b.WriteByte(0)
			continue
		}
		b.WriteByte(c)
	}
	return b.String()
}

// ---------------------------------------------------------------------------------------
// decorations: single operation atoms applied at every position

func fieldsPre(ss ast.SelectionSet, out *[]*ast.Field) {
	for _, s := range ss {
		switch s := s.(type) {
		case *ast.Field:
			*out = append(*out, s)
			fieldsPre(s.SelectionSet, out)
		case *ast.InlineFragment:
			fieldsPre(s.SelectionSet, out)
		}
	}
}

func printDoc(d *ast.QueryDocument) string {
	var b bytes.Buffer
	formatter.NewFormatter(&b, formatter.WithIndent(" ")).FormatQueryDocument(d)
	return string(bytes.Join(bytes.Fields(b.Bytes()), []byte(" ")))
}

var DecorKinds = []string{"alias", "aliasSib", "aliasParent", "aliasNode", "aliasId", "idAliased", "typename", "fragT", "fragN", "fragSkip", "fragIncVarFalse", "fragAbs", "fragAbsTypename", "absTypenameFrag", "id",
	"incLit", "skipLitFalse", "skipVar", "incVar", "argVar", "argVarNamedId", "argVarDefault", "argVarNull", "argVarLeaf0", "argVarLeaf1", "argVarLeaf2", "varTwice", "dup", "dupFirst", "sameKeyTwice", "splitKey", "splitKeyFrag", "dupSwapLeaf", "dupDropLeaf", "named", "namedTwice", "opName", "rootTypename", "rootTypenameAliased", "rootFragSkipVar"}

// Decorate returns all single-decoration variants of q.
func Decorate(s *ast.Schema, q string) []Case {
	var out []Case
	base, err := parser.ParseQuery(&ast.Source{Input: q})
	if err != nil {
		panic(err)
	}
	var fs []*ast.Field
	fieldsPre(base.Operations[0].SelectionSet, &fs)
	n := len(fs)
	for p := 0; p < n; p++ {
		for _, k := range DecorKinds {
			if (k == "opName" || k == "rootTypename" || k == "rootTypenameAliased" || k == "rootFragSkipVar") && p > 0 {
				continue
			}
			d, _ := parser.ParseQuery(&ast.Source{Input: q})
			op := d.Operations[0]
			var ff []*ast.Field
			fieldsPre(op.SelectionSet, &ff)
			f := ff[p]
			vars := map[string]interface{}{}
			ptype, parent := parentTypeOf(s, op, f)
			if ptype == "" {
				continue
			}
			var fd *ast.FieldDefinition
			if f.Name != "__typename" {
				fd = s.Types[ptype].Fields.ForName(f.Name)
				if fd == nil {
					continue
				}
			}
			hasSel := len(f.SelectionSet) > 0 && fd != nil
			var ft *ast.Definition
			if fd != nil {
				ft = s.Types[fd.Type.Name()]
			}
			ok := true
			opName := ""
			switch k {
			case "alias":
				f.Alias = "a"
			case "aliasSib":
				ok = false
				for _, o := range s.Types[ptype].Fields {
					if o.Name != f.Name && o.Name[0] != '_' && o.Name != "id" {
						f.Alias = o.Name
						ok = true
						break
					}
				}
			case "aliasParent":
				if parent == nil {
					ok = false
				} else {
					f.Alias = parent.Name
				}
			case "aliasNode":
				// the response key of the gateway's own lookup wrapper
				if f.Name == "node" {
					ok = false
				} else {
					f.Alias = "node"
				}
			case "aliasId":
				if f.Name == "id" || ft == nil || ft.Kind != ast.Scalar {
					ok = false
				} else {
					f.Alias = "id"
				}
			case "idAliased":
				if f.Name != "id" {
					ok = false
				} else {
					f.Alias = "ident"
				}
			case "typename":
				if !hasSel {
					ok = false
				} else {
					f.SelectionSet = append(ast.SelectionSet{&ast.Field{Name: "__typename", Alias: "__typename"}}, f.SelectionSet...)
				}
			case "fragT":
				if !hasSel || ft.Kind != ast.Object {
					ok = false
				} else {
					f.SelectionSet = ast.SelectionSet{&ast.InlineFragment{TypeCondition: ft.Name, SelectionSet: f.SelectionSet}}
				}
			case "fragSkip", "fragIncVarFalse":
				// the selections inside a fragment whose directive says: leave out
				if !hasSel {
					ok = false
				} else if k == "fragSkip" {
					f.SelectionSet = ast.SelectionSet{&ast.InlineFragment{SelectionSet: f.SelectionSet,
						Directives: ast.DirectiveList{{Name: "skip", Arguments: ast.ArgumentList{{Name: "if", Value: &ast.Value{Kind: ast.BooleanValue, Raw: "true"}}}}}}}
				} else {
					f.SelectionSet = ast.SelectionSet{&ast.InlineFragment{TypeCondition: ft.Name, SelectionSet: f.SelectionSet,
						Directives: ast.DirectiveList{{Name: "include", Arguments: ast.ArgumentList{{Name: "if", Value: &ast.Value{Kind: ast.Variable, Raw: "inc"}}}}}}}
					op.VariableDefinitions = append(op.VariableDefinitions, &ast.VariableDefinition{Variable: "inc", Type: ast.NonNullNamedType("Boolean", nil)})
					vars["inc"] = false
				}
			case "fragN":
				if !hasSel || ft.Kind != ast.Object {
					ok = false
				} else {
					f.SelectionSet = ast.SelectionSet{&ast.InlineFragment{SelectionSet: f.SelectionSet}}
				}
			case "absTypenameFrag":
				// next to the client's own selections a fragment on an interface of the type that selects __typename only
				if !hasSel || ft.Kind != ast.Object || len(ft.Interfaces) == 0 {
					ok = false
				} else {
					f.SelectionSet = append(f.SelectionSet, &ast.InlineFragment{TypeCondition: ft.Interfaces[0], SelectionSet: ast.SelectionSet{&ast.Field{Name: "__typename", Alias: "__typename"}}})
				}
			case "fragAbs", "fragAbsTypename":
				// wrap in a fragment on an interface the type implements (second kind: the client also selects __typename next to it)
				if !hasSel || ft.Kind != ast.Object || len(ft.Interfaces) == 0 {
					ok = false
				} else {
					var keep ast.SelectionSet
					idef := s.Types[ft.Interfaces[0]]
					for _, x := range f.SelectionSet {
						if xf, is := x.(*ast.Field); is && idef.Fields.ForName(xf.Name) != nil {
							keep = append(keep, x)
						}
					}
					if len(keep) == 0 {
						ok = false
					} else {
						var rest ast.SelectionSet
						for _, x := range f.SelectionSet {
							if xf, is := x.(*ast.Field); !is || idef.Fields.ForName(xf.Name) == nil {
								rest = append(rest, x)
							}
						}
						f.SelectionSet = append(ast.SelectionSet{&ast.InlineFragment{TypeCondition: idef.Name, SelectionSet: keep}}, rest...)
						if k == "fragAbsTypename" {
							f.SelectionSet = append(ast.SelectionSet{&ast.Field{Name: "__typename", Alias: "__typename"}}, f.SelectionSet...)
						}
					}
				}
			case "id":
				if !hasSel || ft.Fields.ForName("id") == nil {
					ok = false
				} else {
					for _, x := range f.SelectionSet {
						if xf, is := x.(*ast.Field); is && xf.Name == "id" {
							ok = false
						}
					}
					f.SelectionSet = append(f.SelectionSet, &ast.Field{Name: "id", Alias: "id"})
				}
			case "incLit":
				f.Directives = ast.DirectiveList{{Name: "include", Arguments: ast.ArgumentList{{Name: "if", Value: &ast.Value{Kind: ast.BooleanValue, Raw: "true"}}}}}
			case "skipLitFalse":
				f.Directives = ast.DirectiveList{{Name: "skip", Arguments: ast.ArgumentList{{Name: "if", Value: &ast.Value{Kind: ast.BooleanValue, Raw: "false"}}}}}
			case "skipVar":
				f.Directives = ast.DirectiveList{{Name: "skip", Arguments: ast.ArgumentList{{Name: "if", Value: &ast.Value{Kind: ast.Variable, Raw: "s"}}}}}
				op.VariableDefinitions = append(op.VariableDefinitions, &ast.VariableDefinition{Variable: "s", Type: ast.NonNullNamedType("Boolean", nil)})
				vars["s"] = false
			case "incVar":
				f.Directives = ast.DirectiveList{{Name: "include", Arguments: ast.ArgumentList{{Name: "if", Value: &ast.Value{Kind: ast.Variable, Raw: "s"}}}}}
				op.VariableDefinitions = append(op.VariableDefinitions, &ast.VariableDefinition{Variable: "s", Type: ast.NonNullNamedType("Boolean", nil)})
				vars["s"] = true
			case "argVar", "argVarNamedId", "argVarDefault", "argVarNull", "varTwice":
				if len(f.Arguments) == 0 || fd == nil {
					ok = false
					break
				}
				a := f.Arguments[0]
				ad := fd.Arguments.ForName(a.Name)
				val, _ := a.Value.Value(nil)
				vname := "v0"
				if k == "argVarNamedId" {
					vname = "id" // the name the planner uses for the stitching id
				}
				vd := &ast.VariableDefinition{Variable: vname, Type: ad.Type}
				switch k {
				case "argVarDefault":
					vd.DefaultValue = a.Value
				case "argVarNull":
					if ad.Type.NonNull {
						ok = false
					}
					vars["v0"] = nil
				default:
					vars[vname] = val
				}
				a.Value = &ast.Value{Kind: ast.Variable, Raw: vname}
				op.VariableDefinitions = append(op.VariableDefinitions, vd)
				if k == "varTwice" {
					// the same field again under alias b with the same variable
					ok = appendSibling(&op.SelectionSet, f, func(c *ast.Field) { c.Alias = "b" })
				}
			case "argVarLeaf0", "argVarLeaf1", "argVarLeaf2":
				// one leaf inside an object / list literal of an argument becomes a variable
				// (a variable in an input object that is an element of a list, ...)
				if fd == nil {
					ok = false
					break
				}
				var leaves []argLeaf
				for _, a := range f.Arguments {
					if ad := fd.Arguments.ForName(a.Name); ad != nil && len(a.Value.Children) > 0 {
						collectArgLeaves(s, ad.Type, a.Value, &leaves)
					}
				}
				li := int(k[len(k)-1] - '0')
				if li >= len(leaves) {
					ok = false
					break
				}
				lf := leaves[li]
				val, _ := lf.val.Value(nil)
				vars["lv"] = val
				op.VariableDefinitions = append(op.VariableDefinitions, &ast.VariableDefinition{Variable: "lv", Type: lf.typ})
				*lf.val = ast.Value{Kind: ast.Variable, Raw: "lv"}
			case "dup":
				ok = appendSibling(&op.SelectionSet, f, func(c *ast.Field) { c.Alias = "b" })
			case "dupFirst":
				// the aliased copy comes first, the plain field after it
				f.Alias = "b"
				ok = appendSibling(&op.SelectionSet, f, func(c *ast.Field) { c.Alias = c.Name })
			case "sameKeyTwice":
				// the identical selection once more under the same response key (field merging)
				ok = appendSibling(&op.SelectionSet, f, func(c *ast.Field) {})
			case "splitKey":
				// f { a b } written as f { a } f { b }: one response key, sub-selections to be merged
				if len(f.SelectionSet) < 2 {
					ok = false
				} else {
					all := f.SelectionSet
					h := len(all) / 2
					f.SelectionSet = append(ast.SelectionSet{}, all[:h]...)
					ok = appendSibling(&op.SelectionSet, f, func(c *ast.Field) { c.SelectionSet = append(ast.SelectionSet{}, all[h:]...) })
				}
			case "splitKeyFrag":
				// f { a b } written as f { a } ... { f { b } }: the second half arrives through an untyped inline fragment
				if len(f.SelectionSet) < 2 {
					ok = false
				} else {
					all := f.SelectionSet
					h := len(all) / 2
					f.SelectionSet = append(ast.SelectionSet{}, all[:h]...)
					wrapNext = true
					ok = appendSibling(&op.SelectionSet, f, func(c *ast.Field) { c.SelectionSet = append(ast.SelectionSet{}, all[h:]...) })
					wrapNext = false
				}
			case "dupSwapLeaf", "dupDropLeaf":
				// an aliased copy that differs from the original in its last leaf only (id <-> another
				// scalar, or the leaf dropped): two places that fetch the same entities with partly the
				// same sub-requests but are owed different keys
				if !hasSel || ft == nil {
					ok = false
					break
				}
				cp := deepCopyField(f)
				cp.Alias = "b"
				if !mutateLastLeaf(s, ft, &cp.SelectionSet, k == "dupDropLeaf") {
					ok = false
					break
				}
				ok = appendSibling(&op.SelectionSet, f, func(c *ast.Field) { *c = *cp })
			case "named", "namedTwice":
				if !hasSel || ft.Kind != ast.Object {
					ok = false
				} else {
					d.Fragments = append(d.Fragments, &ast.FragmentDefinition{Name: "F", TypeCondition: ft.Name, SelectionSet: f.SelectionSet})
					f.SelectionSet = ast.SelectionSet{&ast.FragmentSpread{Name: "F"}}
					if k == "namedTwice" {
						ok = appendSibling(&op.SelectionSet, f, func(c *ast.Field) { c.Alias = "b" })
					}
				}
			case "rootFragSkipVar":
				// the whole operation body inside a fragment on the root type that a variable switches off
				root := "Query"
				if op.Operation == ast.Mutation {
					root = "Mutation"
				}
				op.SelectionSet = ast.SelectionSet{&ast.InlineFragment{TypeCondition: root, SelectionSet: op.SelectionSet,
					Directives: ast.DirectiveList{{Name: "skip", Arguments: ast.ArgumentList{{Name: "if", Value: &ast.Value{Kind: ast.Variable, Raw: "off"}}}}}}}
				op.VariableDefinitions = append(op.VariableDefinitions, &ast.VariableDefinition{Variable: "off", Type: ast.NonNullNamedType("Boolean", nil)})
				vars["off"] = true
			case "rootTypename":
				// the operation's own __typename next to the service fields (answered by the gateway itself)
				op.SelectionSet = append(ast.SelectionSet{&ast.Field{Name: "__typename", Alias: "__typename"}}, op.SelectionSet...)
			case "rootTypenameAliased":
				op.SelectionSet = append(op.SelectionSet, &ast.Field{Name: "__typename", Alias: "t"})
			case "opName":
				op.Name = "MyOp"
				opName = "MyOp"
			}
			if !ok {
				continue
			}
			out = append(out, Case{Q: printDoc(d), Vars: vars, Dec: fmt.Sprintf("%s@%d", k, p), OpName: opName})
		}
	}
	return out
}

type argLeaf struct {
	val *ast.Value
	typ *ast.Type
}

// collectArgLeaves lists the scalar leaves inside an object / list literal with their expected types.
func collectArgLeaves(s *ast.Schema, t *ast.Type, v *ast.Value, out *[]argLeaf) {
	if v == nil || t == nil {
		return
	}
	switch v.Kind {
	case ast.ListValue:
		if t.Elem == nil {
			return
		}
		for _, c := range v.Children {
			collectArgLeaves(s, t.Elem, c.Value, out)
		}
	case ast.ObjectValue:
		d := s.Types[t.Name()]
		if d == nil {
			return
		}
		for _, c := range v.Children {
			if fd := d.Fields.ForName(c.Name); fd != nil {
				collectArgLeaves(s, fd.Type, c.Value, out)
			}
		}
	case ast.Variable:
	default:
		*out = append(*out, argLeaf{v, t})
	}
}

func deepCopyField(f *ast.Field) *ast.Field {
	c := *f
	c.SelectionSet = nil
	for _, x := range f.SelectionSet {
		switch x := x.(type) {
		case *ast.Field:
			c.SelectionSet = append(c.SelectionSet, deepCopyField(x))
		case *ast.InlineFragment:
			fr := *x
			fr.SelectionSet = deepCopyField(&ast.Field{SelectionSet: x.SelectionSet}).SelectionSet
			c.SelectionSet = append(c.SelectionSet, &fr)
		default:
			c.SelectionSet = append(c.SelectionSet, x)
		}
	}
	return &c
}

// mutateLastLeaf follows the last selection downwards (fields only) and swaps the leaf it
// ends in (id -> first other argument-free scalar of the type, anything else -> id), or
// drops it when the enclosing selection keeps at least one other entry.
func mutateLastLeaf(s *ast.Schema, t *ast.Definition, ss *ast.SelectionSet, drop bool) bool {
	for {
		if t == nil || len(*ss) == 0 {
			return false
		}
		last, ok := (*ss)[len(*ss)-1].(*ast.Field)
		if !ok {
			return false
		}
		if len(last.SelectionSet) > 0 {
			fd := t.Fields.ForName(last.Name)
			if fd == nil {
				return false
			}
			t = s.Types[fd.Type.Name()]
			ss = &last.SelectionSet
			continue
		}
		if drop {
			if len(*ss) < 2 {
				return false
			}
			*ss = (*ss)[:len(*ss)-1]
			return true
		}
		have := map[string]bool{}
		for _, x := range *ss {
			if xf, is := x.(*ast.Field); is {
				have[xf.Name] = true
			}
		}
		if last.Name != "id" {
			if t.Fields.ForName("id") == nil || have["id"] {
				return false
			}
			*last = ast.Field{Name: "id", Alias: "id"}
			return true
		}
		for _, o := range t.Fields {
			od := s.Types[o.Type.Name()]
			if o.Name == "id" || o.Name[0] == '_' || have[o.Name] || od == nil || (od.Kind != ast.Scalar && od.Kind != ast.Enum) {
				continue
			}
			req := false
			for _, a := range o.Arguments {
				if a.Type.NonNull && a.DefaultValue == nil {
					req = true
				}
			}
			if req {
				continue
			}
			*last = ast.Field{Name: o.Name, Alias: o.Name}
			return true
		}
		return false
	}
}

// wrapNext makes appendSibling put the copy inside an untyped inline fragment.
var wrapNext bool

func appendSibling(root *ast.SelectionSet, f *ast.Field, mod func(*ast.Field)) bool {
	var rec func(ss *ast.SelectionSet) bool
	rec = func(ss *ast.SelectionSet) bool {
		for _, s := range *ss {
			switch s := s.(type) {
			case *ast.Field:
				if s == f {
					c := *f
					mod(&c)
					if wrapNext {
						*ss = append(*ss, &ast.InlineFragment{SelectionSet: ast.SelectionSet{&c}})
					} else {
						*ss = append(*ss, &c)
					}
					return true
				}
				if rec(&s.SelectionSet) {
					return true
				}
			case *ast.InlineFragment:
				if rec(&s.SelectionSet) {
					return true
				}
			}
		}
		return false
	}
	return rec(root)
}

// parentTypeOf finds the type the target field is selected on, and the enclosing field.
func parentTypeOf(s *ast.Schema, op *ast.OperationDefinition, target *ast.Field) (string, *ast.Field) {
	root := "Query"
	if op.Operation == ast.Mutation {
		root = "Mutation"
	}
	if op.Operation == ast.Subscription {
		root = "Subscription"
	}
	var rec func(t string, parent *ast.Field, ss ast.SelectionSet) (string, *ast.Field)
	rec = func(t string, parent *ast.Field, ss ast.SelectionSet) (string, *ast.Field) {
		for _, x := range ss {
			switch x := x.(type) {
			case *ast.Field:
				if x == target {
					return t, parent
				}
				if x.Name == "__typename" {
					continue
				}
				td := s.Types[t]
				if td == nil {
					continue
				}
				fd := td.Fields.ForName(x.Name)
				if fd == nil {
					continue
				}
				if r, p := rec(fd.Type.Name(), x, x.SelectionSet); r != "" {
					return r, p
				}
			case *ast.InlineFragment:
				tt := x.TypeCondition
				if tt == "" {
					tt = t
				}
				if r, p := rec(tt, parent, x.SelectionSet); r != "" {
					return r, p
				}
			}
		}
		return "", nil
	}
	return rec(root, nil, op.SelectionSet)
}

// HandOps are hand-written operations for shapes no single decoration of an enumerated tree
// produces (they are added to the plain operation sets of the worlds they are valid on).
func HandOps(f *Fed) []Case {
	cands := []Case{
		// one variable at a non-null and at a nullable position of the same sub-request, in both orders, with and without a default
		{Q: "mutation ($n: Int!) { incr(by: $n) mkN1 { calc(x: $n) } }", Vars: map[string]interface{}{"n": 2}, Dec: "hand:var-two-positions"},
		{Q: "mutation ($n: Int!) { mkN1 { calc(x: $n) } incr(by: $n) }", Vars: map[string]interface{}{"n": 2}, Dec: "hand:var-two-positions"},
		{Q: "mutation ($n: Int = 2) { mkN1 { calc(x: $n) } incr(by: $n) }", Vars: map[string]interface{}{}, Dec: "hand:var-two-positions-default"},
		{Q: "mutation ($n: Int = 2) { incr(by: $n) mkN1 { calc(x: $n) } }", Vars: map[string]interface{}{}, Dec: "hand:var-two-positions-default"},
		// ... at two positions of the same selection level, the nullable one declared with a default
		{Q: "query ($n: Int = 2) { echo(x: $n) page0(p: {limit: $n}) }", Vars: map[string]interface{}{}, Dec: "hand:var-two-positions-default"},
		{Q: "query ($n: Int = 2) { page0(p: {limit: $n}) echo(x: $n) }", Vars: map[string]interface{}{}, Dec: "hand:var-two-positions-default"},
		{Q: "query ($n: Int = 2) { echo(x: $n) page0(p: {limit: $n}) }", Vars: map[string]interface{}{"n": 4}, Dec: "hand:var-two-positions-default"},
		// a named fragment spread at two paths whose body holds an inline fragment with a field of another service below
		{Q: "fragment F on N1 { name ... on N1 { n2s { title } } } { n1s { ...F n2s { owner { ...F } } } }", Vars: map[string]interface{}{}, Dec: "hand:named-fragment-two-paths"},
		{Q: "fragment F on N2 { ... on N2 { owner { name } } } { n2 { ...F owner { n2s { ...F } } } }", Vars: map[string]interface{}{}, Dec: "hand:named-fragment-two-paths"},
		// variables inside the list / object literal of a custom scalar (no expected types inside)
		{Q: "query ($a: String) { when(at: [$a]) }", Vars: map[string]interface{}{"a": "x"}, Dec: "hand:var-in-custom-scalar-literal"},
		{Q: "query ($a: String) { when(at: {k: $a}) }", Vars: map[string]interface{}{"a": "x"}, Dec: "hand:var-in-custom-scalar-literal"},
		{Q: "query ($a: String, $b: Int) { when(at: [{k: $a}, [$b, 1]]) }", Vars: map[string]interface{}{"a": "x", "b": 3}, Dec: "hand:var-in-custom-scalar-literal"},
		// untyped inline fragments (with and without a directive) directly below abstract-typed fields
		{Q: "{ us { ... @skip(if: true) { __typename } } }", Vars: map[string]interface{}{}, Dec: "hand:untyped-fragment-in-abstract-field"},
		{Q: "{ us { ... { __typename } } }", Vars: map[string]interface{}{}, Dec: "hand:untyped-fragment-in-abstract-field"},
		{Q: "query ($v: Boolean!) { us { ... @include(if: $v) { __typename } } }", Vars: map[string]interface{}{"v": true}, Dec: "hand:untyped-fragment-in-abstract-field"},
		{Q: "query ($v: Boolean!) { us { ... @include(if: $v) { __typename } } }", Vars: map[string]interface{}{"v": false}, Dec: "hand:untyped-fragment-in-abstract-field"},
		{Q: "{ things { ... @skip(if: false) { a } } }", Vars: map[string]interface{}{}, Dec: "hand:untyped-fragment-in-abstract-field"},
		{Q: "{ named { ... @include(if: true) { name } } }", Vars: map[string]interface{}{}, Dec: "hand:untyped-fragment-in-abstract-field"},
		// a fragment on the abstract type of its field next to the client's own __typename, under an alias or reached through a named fragment only
		{Q: "{ us { t: __typename ... on U { ... on N4 { label } } } }", Vars: map[string]interface{}{}, Dec: "hand:abstract-fragment-next-to-typename"},
		{Q: "query { us { ...TN ... on U { ... on N4 { label } } } } fragment TN on U { __typename }", Vars: map[string]interface{}{}, Dec: "hand:abstract-fragment-next-to-typename"},
		{Q: "{ us { __typename ... on U { ... on N4 { label } } } }", Vars: map[string]interface{}{}, Dec: "hand:abstract-fragment-next-to-typename"},
		{Q: "{ things { t: __typename ... on I { a } } }", Vars: map[string]interface{}{}, Dec: "hand:abstract-fragment-next-to-typename"},
		{Q: "query { things { ...TN ... on I { a } } } fragment TN on I { __typename }", Vars: map[string]interface{}{}, Dec: "hand:abstract-fragment-next-to-typename"},
		// a response key called node below a child step (the gateway wraps child steps in its own node lookup)
		{Q: "{ n2 { owner { node: n2s { title } } } }", Vars: map[string]interface{}{}, Dec: "hand:key-named-node-below-child-step"},
		{Q: "{ edges { cursor node { name n2s { title } } } }", Vars: map[string]interface{}{}, Dec: "hand:key-named-node-below-child-step"},
		// a subscription operation sent like a query (POST): answered like any operation
		{Q: "subscription { tick }", Vars: map[string]interface{}{}, Dec: "hand:subscription-by-post"},
		{Q: "subscription { n1Changed { name phone } }", Vars: map[string]interface{}{}, Dec: "hand:subscription-by-post"},
		// one response key selected twice at one level under different conditions: the field belongs to the answer as soon as one of them lets it
		{Q: "{ n1s { name @skip(if: true) name } }", Vars: map[string]interface{}{}, Dec: "hand:same-key-different-directives"},
		{Q: "{ n1s { name name @skip(if: true) } }", Vars: map[string]interface{}{}, Dec: "hand:same-key-different-directives"},
		{Q: "{ n1s { phone @include(if: false) phone } }", Vars: map[string]interface{}{}, Dec: "hand:same-key-different-directives"},
		{Q: "{ n2 @skip(if: true) { title } n2 { title } }", Vars: map[string]interface{}{}, Dec: "hand:same-key-different-directives"},
		{Q: "{ n1s { name n2s @skip(if: true) { title } n2s { title owner { phone } } } }", Vars: map[string]interface{}{}, Dec: "hand:same-key-different-directives"},
		{Q: "{ n1s { n2s { owner { phone } } n2s @include(if: false) { title } } }", Vars: map[string]interface{}{}, Dec: "hand:same-key-different-directives"},
		{Q: "{ n1s { ... @skip(if: true) { name } name } }", Vars: map[string]interface{}{}, Dec: "hand:same-key-different-directives"},
		{Q: "{ n2 @include(if: false) { ...F } n2 { title } } fragment F on N2 { owner { name } }", Vars: map[string]interface{}{}, Dec: "hand:same-key-different-directives"},
		{Q: "query ($v: Boolean!) { n2 @include(if: $v) { title } n2 { owner { name } } }", Vars: map[string]interface{}{"v": false}, Dec: "hand:same-key-different-directives"},
		{Q: "query ($v: Boolean!) { n2 @include(if: $v) { title } n2 { owner { name } } }", Vars: map[string]interface{}{"v": true}, Dec: "hand:same-key-different-directives"},
		{Q: "mutation ($v: Boolean!) { ... @include(if: $v) { incr(by: 1) } incr(by: 1) }", Vars: map[string]interface{}{"v": false}, Dec: "hand:same-key-different-directives"},
		{Q: "mutation { incr(by: 1) @skip(if: true) incr(by: 1) }", Vars: map[string]interface{}{}, Dec: "hand:same-key-different-directives"},
		{Q: "query ($a: Boolean!, $b: Boolean!) { n1s { n2s @skip(if: $a) { title } n2s @include(if: $b) { owner { phone } } } }", Vars: map[string]interface{}{"a": true, "b": true}, Dec: "hand:same-key-two-conditions"},
		{Q: "query ($a: Boolean!, $b: Boolean!) { n1s { n2s @skip(if: $a) { title } n2s @include(if: $b) { owner { phone } } } }", Vars: map[string]interface{}{"a": false, "b": false}, Dec: "hand:same-key-two-conditions"},
		// a response key that is met first deeper down (an object under an alias) and then at the level it is looked up at (a list with a field of another service below)
		{Q: "{ n1s { v { n2s: w { b } } n2s { title } } }", Vars: map[string]interface{}{}, Dec: "hand:key-deeper-first"},
		{Q: "{ n1s { n2s { title } v { n2s: w { b } } } }", Vars: map[string]interface{}{}, Dec: "hand:key-deeper-first"},
		{Q: "{ n2 { owner { v { n2s: w { b } } n2s { title } } } }", Vars: map[string]interface{}{}, Dec: "hand:key-deeper-first"},
		{Q: "{ v { maybeN1s: w { b } } maybeN1s { name } }", Vars: map[string]interface{}{}, Dec: "hand:key-deeper-first"},
		{Q: "{ x: n1s { a { n1s: b { id } } } n1s { p } }", Vars: map[string]interface{}{}, Dec: "hand:key-deeper-first"},
		{Q: "{ n2 { owner { v { owner: w { b } } } } }", Vars: map[string]interface{}{}, Dec: "hand:key-deeper-first"},
		// a literal that reads like the name of a variable used elsewhere
		{Q: "query ($name: Int) { echo(x: $name) n1ByName: n1s { calc(x: 1) } }", Vars: map[string]interface{}{"name": 5}, Dec: "hand:literal-like-variable"},
	}
	var out []Case
	for _, c := range cands {
		if d, _ := f.load(c.Q); d != nil {
			out = append(out, c)
		}
	}
	return out
}
