package a

import (
	"encoding/json"
	"fmt"
	"sort"
	"strings"
	"time"

	"verif/gqlref"
	"verif/schemacanon"

	"github.com/buildbuildio/pebbles/introspection"
	"github.com/buildbuildio/pebbles/queryer"
	"github.com/buildbuildio/pebbles/requests"
	"github.com/vektah/gqlparser/v2"
	"github.com/vektah/gqlparser/v2/ast"
)

// introQueryer is a spec-compliant introspection responder for one source schema.
type introQueryer struct {
	url    string
	schema *ast.Schema
	last   map[string]interface{}
}

func (q *introQueryer) URL() string { return q.url }
func (q *introQueryer) Subscribe(*requests.Request, <-chan struct{}, chan *requests.Response) error {
	return fmt.Errorf("not supported")
}
func (q *introQueryer) Query(reqs []*requests.Request) ([]map[string]interface{}, error) {
	out := make([]map[string]interface{}, len(reqs))
	for i, r := range reqs {
		doc, errs := gqlparser.LoadQuery(q.schema, r.Query)
		if errs != nil {
			return nil, fmt.Errorf("responder: introspection query invalid: %v", errs)
		}
		var op *ast.OperationDefinition
		if r.OperationName != nil {
			op = doc.Operations.ForName(*r.OperationName)
		} else {
			op = doc.Operations[0]
		}
		data, err := gqlref.Execute(q.schema, &gqlref.IntrospectResolver{Schema: q.schema}, op, r.Variables, nil)
		if err != nil {
			return nil, err
		}
		b, _ := json.Marshal(data)
		var m map[string]interface{}
		json.Unmarshal(b, &m)
		out[i] = m
		q.last = m
	}
	return out, nil
}

var canonFull = schemacanon.Options{NoDirectives: true}

func srcFeatures(s *ast.Schema) []string {
	set := map[string]bool{}
	for k, v := range schemacanon.Canon(s, canonFull) {
		set["src:"+strings.ReplaceAll(schemacanon.Class(k), " ", "-")] = true
		if strings.HasSuffix(k, " type") {
			if strings.Contains(v, "[[") {
				set["src:nested-list"] = true
			}
			if strings.Contains(v, "!]") {
				set["src:list-of-nonnull"] = true
			}
			if strings.HasPrefix(v, "[") && !strings.HasSuffix(v, "!") {
				set["src:nullable-list"] = true
			}
		}
		if strings.HasSuffix(k, " default") {
			switch {
			case strings.HasPrefix(v, `"`):
				set["src:default-string"] = true
			case strings.HasPrefix(v, "["):
				set["src:default-list"] = true
			case strings.HasPrefix(v, "{"):
				set["src:default-object"] = true
			case v == "null":
				set["src:default-null"] = true
			case v == "true" || v == "false":
				set["src:default-boolean"] = true
			case strings.ContainsAny(v[:1], "0123456789-"):
				set["src:default-number"] = true
			default:
				set["src:default-enum"] = true
			}
		}
	}
	if s.Query != nil && s.Query.Name != "Query" {
		set["src:renamed-query-root"] = true
	}
	if s.Mutation != nil && s.Mutation.Name != "Mutation" {
		set["src:renamed-mutation-root"] = true
	}
	for _, t := range s.Types {
		if t.Kind == ast.Interface && len(t.Interfaces) > 0 {
			set["src:interface-implements-interface"] = true
		}
	}
	out := setToList(set)
	return out
}

var c15ExtraSDL = []string{
	"type Query { a: Int }",
	"schema { query: Q } type Q { a: Int b(x: [Int!] = [1]): [String!]! }",
	"schema { query: Q mutation: M subscription: S } type Q { a: Int } type M { m(x: Int! = 4): Int! } type S { s: Int }",
	// only one root renamed: the others keep their default names next to an explicit schema block
	"schema { query: RootQuery mutation: Mutation } type RootQuery { a: Int } type Mutation { m(x: Int): Int }",
	"schema { query: Query mutation: Mutation subscription: Events } type Query { a: Int } type Mutation { m: Int } type Events { e: Int }",
	"type Query { deep: [[[Int!]!]!]! deeper(a: [[[[Int]]]]): [[[[String]]]] }",
	"type Query { f(a: Float = 1.5, b: Float = -2, c: Int = -3, d: String = \"\", e: String = \"q\\\"uo\\\\te\\nnl \\u00e9\", g: Boolean = false, h: ID = 5, i: ID = \"x\"): Int }",
	"enum E { A B } input I { e: E = B l: [E!] = [A, B] n: I o: [I] = [{e: A}] } type Query { f(i: I = {e: A, l: [B]}, es: [E] = [A, null]): E }",
	"\"\"\"type doc\"\"\" type Query { \"\"\"field\ndoc\"\"\" a(\"arg doc\" x: Int): Int } \"union doc\" union U = Query \"iface doc\" interface IF { a: Int } \"dir doc\" directive @d(\"darg doc\" x: Int = 1) on FIELD",
	"directive @a on QUERY | MUTATION | SUBSCRIPTION | FIELD | FRAGMENT_DEFINITION | FRAGMENT_SPREAD | INLINE_FRAGMENT | VARIABLE_DEFINITION directive @b(x: [Int!]! = [1], y: String! = \"z\") repeatable on SCHEMA | SCALAR | OBJECT | FIELD_DEFINITION | ARGUMENT_DEFINITION | INTERFACE | UNION | ENUM | ENUM_VALUE | INPUT_OBJECT | INPUT_FIELD_DEFINITION type Query { a: Int }",
	"type Query { old: Int @deprecated new: Int old2: Int @deprecated(reason: \"because \\\"x\\\"\") } enum E { A @deprecated B @deprecated(reason: \"r\") C }",
	"interface A { a: Int } interface B implements A { a: Int b: Int } type T implements B & A { a: Int b: Int } type Query { t: A }",
	"scalar JSON scalar Date type Query { j(j: JSON = \"{}\", d: Date): JSON }",
	"union U = A | B type A { a: Int } type B { b: Int } type Query { u: [U!] }",
	// wrapped deeper than the introspection query unfolds: nobody can rebuild this from the standard query, refusing it is fine, dying is not
	"type Query { deepest: [[[[Int!]!]!]!]! ok: Int }",
	"type Query { f(a: [[[[Int!]!]!]!]!): Int } input I { deep: [[[[String!]!]!]!] }",
	// directives named like those of newer specification drafts are the service's own definitions
	"directive @defer(label: String, if: Boolean = true) on FRAGMENT_SPREAD | INLINE_FRAGMENT directive @oneOf on INPUT_OBJECT directive @stream(initialCount: Int = 0) on FIELD type Query { a: Int }",
	// a bare value as the default of a list and of lists of lists (coerced to a list of one at every level), next to defaults written out as lists
	"enum Color { RED GREEN } type Query { f(init: [[Int!]!] = 0, labels: [[[String]]] = \"x\", c: [[Color!]!] = RED, one: [Int] = 8, two: [[Int]] = [1, 2], three: [[Int]] = [[1], [2]], b: [[Boolean]] = true, fl: [[Float!]] = 1.5): Int } input Board { cells: [[Int]] = 3 name: [String!] = \"n\" } directive @grid(shape: [[Int!]] = 2) on FIELD",
	// string defaults with escape sequences and no quote inside (argument, input field, directive argument)
	"type Query { g(p: String = \"\\\\d+\\t\\u00e9 x\", q: [String] = [\"a\\\\b\"]): Int h(i: IE): Int } input IE { r: String = \"back\\\\slash\" s: String = \"\" } directive @dd(s: String = \"t\\tab\") on FIELD",
}

func c15Jobs(tier string) []string {
	dw := 3
	if tier == "thorough" {
		dw = 4
	}
	ws := EnumWorlds([]string{"Wmin", "W0"}, dw, 0)
	jobs := []string{"extra"}
	for i := 0; i < len(ws); i += 400 {
		jobs = append(jobs, fmt.Sprintf("%d-%d/dw%d", i, min(i+400, len(ws)), dw))
	}
	return jobs
}

// standardClientRebuilds: can a standard client rebuild the schema from the answer to the *standard* introspection
// query (graphql-js's text, seven ofType levels) - asked independently of whatever query the gateway sends
func standardClientRebuilds(src *ast.Schema) bool {
	doc, errs := gqlparser.LoadQuery(src, graphqlJSIntrospection)
	if errs != nil {
		return false
	}
	data, err := gqlref.Execute(src, &gqlref.IntrospectResolver{Schema: src}, doc.Operations.ForName("IntrospectionQuery"), nil, nil)
	if err != nil {
		return false
	}
	b, _ := json.Marshal(data)
	var m map[string]interface{}
	if json.Unmarshal(b, &m) != nil {
		return false
	}
	_, _, cerr := gqlref.FromIntrospection(m)
	return cerr == nil
}

func c15One(sdl string) (atoms []string, sigs []string, nontrivial bool, generr string) {
	src, err := gqlparser.LoadSchema(&ast.Source{Name: "src", Input: sdl})
	if err != nil {
		return nil, nil, false, "source SDL invalid: " + err.Error()
	}
	atoms = srcFeatures(src)
	iq := &introQueryer{url: "http://svc", schema: src}
	in := &introspection.ParallelRemoteSchemaIntrospector{Factory: func(string) queryer.Queryer { return iq }}
	var res []*ast.Schema
	var ierr error
	func() {
		defer func() {
			if r := recover(); r != nil {
				ierr = fmt.Errorf("PANIC %v", r)
			}
		}()
		res, ierr = in.IntrospectRemoteSchemas("http://svc")
	}()
	set := map[string]bool{}
	if ierr != nil {
		if strings.HasPrefix(ierr.Error(), "PANIC") {
			set["introspection panicked: "+Template(ierr.Error())] = true
		} else if standardClientRebuilds(src) {
			set["a schema a standard client can rebuild is rejected at start-up: "+Template(ierr.Error())] = true
		}
		return atoms, setToList(set), true, ""
	}
	want := schemacanon.Canon(src, canonFull)
	got := schemacanon.Canon(res[0], canonFull)
	for k := range want {
		// `repeatable` is not among the things the statement lists and the 2018-shaped
		// introspection query of the gateway cannot ask for it
		if strings.HasSuffix(k, " repeatable") {
			delete(want, k)
		}
	}
	for _, d := range schemacanon.Diff(want, got) {
		set["reconstruction "+d.Sig()] = true
	}
	// differential corollary: same validity of operations
	w := &World{}
	for _, c := range GenOps(src, w, 2) {
		_, e1 := gqlparser.LoadQuery(src, c.Q)
		_, e2 := gqlparser.LoadQuery(res[0], c.Q)
		if (e1 == nil) != (e2 == nil) {
			set["an operation is valid against the source but not against the reconstruction (or vice versa)"] = true
			break
		}
	}
	return atoms, setToList(set), true, ""
}

func init() {
	Props["C15"] = &Prop{
		ID:    "C15",
		Level: "exploration",
		Rule: "case = one service schema: every service SDL of every world (base + <=3 (thorough 4) atoms of the 45-atom catalogue incl. wrapper shapes, defaults of every literal kind, descriptions, deprecations, directive definitions, " +
			"interface chains, unions, enums, inputs, custom scalars) plus 15 hand-written corner schemas (bare defaults of lists of lists, renamed roots, one root renamed next to default-named ones, 4-deep wrappers, escapes in string defaults, every directive location, repeatable directives); " +
			"path: the real ParallelRemoteSchemaIntrospector over a spec-shaped responder (gqlref.Introspect, through JSON); oracle: canonical facts (incl. descriptions and deprecations) of the reconstruction == those of the source, " +
			"an error is allowed only if a standard client (FromIntrospection) cannot rebuild the schema either; operations (<=2 fields) have the same validity on both; non-trivial = every case",
		Assumptions: []string{"gqlref.IntrospectResolver is the spec-compliant responder", "applied directives other than @deprecated are not transported by introspection and are excluded"},
		Jobs:        c15Jobs,
		Budget: func(tier string) time.Duration {
			if tier == "quick" {
				return 60 * time.Second
			}
			return 10 * time.Minute
		},
		RunJob: func(tier, job string, from int, em *Emitter) {
			var sdls []string
			if job == "extra" {
				sdls = c15ExtraSDL
			} else {
				seen := map[string]bool{}
				for _, wd := range worldsOfJob("C15", job) {
					ss, err := specsOf(wd)
					if err != nil {
						continue
					}
					for _, s := range ss {
						sdl := s.SDL()
						if !seen[sdl] {
							seen[sdl] = true
							sdls = append(sdls, sdl)
						}
					}
				}
				sort.Strings(sdls)
			}
			for i := from; i < len(sdls); i++ {
				rp := map[string]interface{}{"sdl": sdls[i]}
				if !em.Begin(i, nil, rp) {
					if em.Capped() {
						return
					}
					continue
				}
				atoms, sigs, nt, gerr := c15One(sdls[i])
				if gerr != "" {
					em.GenError(gerr)
					em.Done(false)
					continue
				}
				if len(sigs) > 0 {
					em.Fail(atoms, sigs, rp)
				}
				if i%53 == 0 {
					em.Sample(rp)
				}
				em.Done(nt)
			}
		},
	}
}
