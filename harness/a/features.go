package a

import (
	"fmt"
	"reflect"
	"regexp"
	"sort"
	"strings"

	"github.com/vektah/gqlparser/v2/ast"
)

// Features derives the semantic atoms of a client operation (what it uses), so that
// known-finding predicates talk about what an operation *is*, not how it was generated.
func Features(s *ast.Schema, doc *ast.QueryDocument, op *ast.OperationDefinition, vars map[string]interface{}, seen map[string]bool) []string {
	fs := map[string]bool{}
	fs["op-"+string(op.Operation)] = true
	if op.Name != "" {
		fs["op-named"] = true
	}
	if len(doc.Operations) > 1 {
		fs["multi-op-doc"] = true
	}
	varUse := map[string]int{}
	varInArg := map[string]bool{}
	varInDir := map[string]bool{}
	noteVal := func(v *ast.Value, inDir bool) {
		var walk func(v *ast.Value)
		walk = func(v *ast.Value) {
			if v == nil {
				return
			}
			if v.Kind == ast.Variable {
				varUse[v.Raw]++
				if inDir {
					varInDir[v.Raw] = true
				} else {
					varInArg[v.Raw] = true
				}
			}
			if v.Kind == ast.ObjectValue {
				fs["arg-object"] = true
			}
			if v.Kind == ast.ListValue {
				fs["arg-list"] = true
			}
			for _, c := range v.Children {
				walk(c.Value)
			}
		}
		walk(v)
	}
	dirs := func(ds ast.DirectiveList, where string) {
		for _, d := range ds {
			fs["directive"] = true
			fs["dir-on-"+where] = true
			for _, a := range d.Arguments {
				if a.Value.Kind == ast.Variable {
					fs["dir-variable"] = true
				} else {
					fs["dir-literal"] = true
				}
				noteVal(a.Value, true)
			}
		}
	}
	depth := 0
	spreads := map[string]int{}
	objKeys := map[string]int{}
	var walk func(parent *ast.Definition, pf *ast.Field, ss ast.SelectionSet, d int, underRootNode bool)
	walk = func(parent *ast.Definition, pf *ast.Field, ss ast.SelectionSet, d int, underRootNode bool) {
		if d > depth {
			depth = d
		}
		names := map[string][]string{} // field name -> response keys
		keys := map[string]string{}    // response key -> field name
		keyDirs := map[string]string{} // response key -> directives of its first selection
		// response keys of composite fields that are (also) selected inside a fragment of this selection set
		{
			direct := map[string]bool{}
			for _, sel := range ss {
				if x, ok := sel.(*ast.Field); ok && len(x.SelectionSet) > 0 {
					direct[respKey(x)] = true
				}
			}
			seenIn := map[string]int{}
			var inFrag func(ss ast.SelectionSet, container int)
			n := 0
			inFrag = func(fss ast.SelectionSet, container int) {
				for _, sel := range fss {
					switch x := sel.(type) {
					case *ast.Field:
						if len(x.SelectionSet) == 0 {
							continue
						}
						k := respKey(x)
						if direct[k] || (seenIn[k] != 0 && seenIn[k] != container) {
							fs["same-response-key-across-fragment"] = true
						}
						seenIn[k] = container
					case *ast.InlineFragment:
						inFrag(x.SelectionSet, container)
					case *ast.FragmentSpread:
						if x.Definition != nil {
							inFrag(x.Definition.SelectionSet, container)
						}
					}
				}
			}
			for _, sel := range ss {
				switch x := sel.(type) {
				case *ast.InlineFragment:
					n++
					inFrag(x.SelectionSet, n)
				case *ast.FragmentSpread:
					if x.Definition != nil {
						n++
						inFrag(x.Definition.SelectionSet, n)
					}
				}
			}
		}
		for _, sel := range ss {
			switch x := sel.(type) {
			case *ast.Field:
				dirs(x.Directives, "field")
				key := x.Alias
				if key == "" {
					key = x.Name
				}
				for k0, n0 := range keys {
					if n0 == key && k0 != key && k0 != n0 {
						// an earlier sibling selects the field called like this response key under another alias
						fs["key-equals-earlier-aliased-field-name"] = true
					}
				}
				if _, twice := keys[key]; twice {
					// two sibling selections answer under one response key: their sub-selections merge
					fs["same-response-key-twice"] = true
					if d0, d1 := keyDirs[key], dirText(x.Directives); d0 != "" && d1 != "" && d0 != d1 {
						// ... and each of them stands under a condition of its own
						fs["same-key-two-conditions"] = true
					}
				} else {
					keyDirs[key] = dirText(x.Directives)
				}
				names[x.Name] = append(names[x.Name], key)
				keys[key] = x.Name
				if x.Alias != "" && x.Alias != x.Name {
					fs["alias"] = true
					if x.Alias == "id" {
						fs["alias-is-id"] = true
					}
					if x.Name == "id" {
						fs["id-aliased"] = true
					}
					if x.Alias == "__typename" || x.Alias == "node" {
						fs["alias-is-helper-name"] = true
					}
					if parent != nil && parent.Fields.ForName(x.Alias) != nil {
						fs["alias-is-sibling-field-name"] = true
					}
					if pf != nil && (x.Alias == pf.Name || x.Alias == pf.Alias) {
						fs["alias-is-parent-key"] = true
					}
				}
				if x.Name == "__typename" {
					fs["typename"] = true
					if d == 0 {
						fs["root-typename"] = true
					}
					continue
				}
				if strings.HasPrefix(x.Name, "__") {
					fs["introspection"] = true
					continue
				}
				if x.Name == "id" {
					fs["explicit-id"] = true
				}
				if underRootNode {
					fs["root-node-plain-field"] = true
				}
				for _, a := range x.Arguments {
					fs["args"] = true
					noteVal(a.Value, false)
				}
				var fd *ast.FieldDefinition
				if parent != nil {
					fd = parent.Fields.ForName(x.Name)
				}
				if fd == nil {
					fd = x.Definition
				}
				if fd == nil {
					continue
				}
				if len(fd.Arguments) > len(x.Arguments) {
					for _, ad := range fd.Arguments {
						if x.Arguments.ForName(ad.Name) == nil && ad.DefaultValue != nil {
							fs["arg-default-omitted"] = true
						}
					}
				}
				td := s.Types[fd.Type.Name()]
				if td == nil {
					continue
				}
				if fd.Type.Elem != nil {
					fs["list-field"] = true
					if fd.Type.Elem.Elem != nil {
						fs["list-of-lists"] = true
					}
					if !fd.Type.Elem.NonNull && (td.Kind == ast.Object || td.Kind == ast.Interface || td.Kind == ast.Union) {
						fs["nullable-entry-object-list"] = true
					}
				}
				rootNode := d == 0 && parent != nil && parent.Name == "Query" && x.Name == "node"
				if rootNode {
					fs["root-node"] = true
					nfr := 0
					for _, c := range x.SelectionSet {
						if _, ok := c.(*ast.Field); !ok {
							nfr++
						}
					}
					fs[fmt.Sprintf("root-node-fragments-%d", min(nfr, 2))] = true
				}
				switch td.Kind {
				case ast.Union:
					fs["union-field"] = true
					if len(s.PossibleTypes[td.Name]) == 0 {
						fs["memberless-abstract"] = true
					}
				case ast.Interface:
					if onlyHelpers(x.SelectionSet) {
						fs["interface-selection-only-helpers"] = true
					}
					if td.Name == "Node" {
						if !rootNode {
							fs["node-interface-field"] = true
						}
					} else {
						fs["interface-field"] = true
					}
					if len(s.PossibleTypes[td.Name]) == 0 {
						fs["memberless-abstract"] = true
					}
				case ast.Object:
					if !implementsNode(td) && d > 0 {
						fs["value-object-field"] = true
					}
				}
				if len(x.SelectionSet) > 0 {
					objKeys[key]++
					if objKeys[key] > 1 {
						fs["object-key-reused"] = true
					}
					walk(td, x, x.SelectionSet, d+1, rootNode)
				}
			case *ast.InlineFragment:
				dirs(x.Directives, "fragment")
				tc := x.TypeCondition
				if tc == "" {
					fs["frag-inline-untyped"] = true
					walk(parent, pf, x.SelectionSet, d, false)
					continue
				}
				fs["frag-inline-typed"] = true
				fragFeatures(fs, s, parent, tc)
				walk(s.Types[tc], pf, x.SelectionSet, d, false)
			case *ast.FragmentSpread:
				dirs(x.Directives, "fragment")
				fs["frag-named"] = true
				spreads[x.Name]++
				if spreads[x.Name] > 1 {
					fs["frag-named-twice"] = true
				}
				if x.Definition != nil {
					fragFeatures(fs, s, parent, x.Definition.TypeCondition)
					walk(s.Types[x.Definition.TypeCondition], pf, x.Definition.SelectionSet, d, false)
				}
			}
		}
		for _, ks := range names {
			if len(ks) > 1 {
				fs["same-field-twice"] = true
			}
		}
	}
	root := s.Query
	if op.Operation == ast.Mutation {
		root = s.Mutation
	} else if op.Operation == ast.Subscription {
		root = s.Subscription
	}
	walk(root, nil, op.SelectionSet, 0, false)
	if depth >= 3 {
		fs["depth>=3"] = true
	}
	for _, vd := range op.VariableDefinitions {
		fs["var"] = true
		if vd.Variable == "id" {
			fs["var-named-id"] = true
		}
		_, provided := vars[vd.Variable]
		if vd.DefaultValue != nil {
			fs["var-has-default"] = true
			if !provided {
				fs["var-default-used"] = true
			}
		}
		if provided && vars[vd.Variable] == nil {
			fs["var-explicit-null"] = true
		}
		if !provided && vd.DefaultValue == nil {
			fs["var-omitted"] = true
		}
		if varInDir[vd.Variable] && !varInArg[vd.Variable] {
			fs["var-only-in-directive"] = true
		}
		if varUse[vd.Variable] > 1 {
			fs["var-used-twice"] = true
		}
	}
	for k, v := range seen {
		if v {
			fs["data-"+k] = true
		}
	}
	out := make([]string, 0, len(fs))
	for k := range fs {
		out = append(out, k)
	}
	sort.Strings(out)
	return out
}

func fragFeatures(fs map[string]bool, s *ast.Schema, parent *ast.Definition, tc string) {
	td := s.Types[tc]
	if td == nil {
		return
	}
	if td.Kind == ast.Interface || td.Kind == ast.Union {
		fs["frag-on-abstract"] = true
	}
	if parent != nil && parent.Name == tc {
		fs["frag-on-same-type"] = true
	}
	if parent != nil && (parent.Kind == ast.Object) && (td.Kind == ast.Interface || td.Kind == ast.Union) {
		fs["frag-abstract-inside-object"] = true
	}
}

func min(a, b int) int {
	if a < b {
		return a
	}
	return b
}

// ---------------------------------------------------------------------------------------
// diff and signatures

var (
	reQuoted = regexp.MustCompile(`"[^"]*"`)
	reNum    = regexp.MustCompile(`\b\d+\b`)
	reMap    = regexp.MustCompile(`map\[[^\]]*\]`)
	reIdent  = regexp.MustCompile(`\b(N[0-9]|s[0-9]|v[0-9])\b`)
)

func keyClass(k string) string {
	switch k {
	case "id", "__typename", "node":
		return k
	}
	return "<field>"
}

// Template abstracts a message: quoted identifiers and numbers become placeholders,
// the helper names id / __typename / node stay literal.
func Template(msg string) string {
	msg = reQuoted.ReplaceAllStringFunc(msg, func(q string) string {
		in := strings.Trim(q, `"`)
		switch in {
		case "id", "__typename", "node", "$id":
			return q
		}
		if strings.HasPrefix(in, "$") {
			return `"$<var>"`
		}
		return `"<x>"`
	})
	msg = reMap.ReplaceAllString(msg, "map[…]")
	msg = reNum.ReplaceAllString(msg, "N")
	if len(msg) > 200 {
		msg = msg[:200]
	}
	return msg
}

// DiffSigs compares want (reference) and got (gateway) after pruning and returns
// abstracted difference signatures (at most a few).
func DiffSigs(want, got interface{}) []string {
	set := map[string]bool{}
	var rec func(w, g interface{}, key string)
	rec = func(w, g interface{}, key string) {
		if len(set) > 6 {
			return
		}
		switch wv := w.(type) {
		case map[string]interface{}:
			gv, ok := g.(map[string]interface{})
			if !ok {
				set[fmt.Sprintf("diff:TYPE want object got %s at %s", kindOf(g), keyClass(key))] = true
				return
			}
			for k, x := range wv {
				y, ok := gv[k]
				if !ok {
					set["diff:MISSING "+keyClass(k)] = true
					continue
				}
				rec(x, y, k)
			}
			for k, y := range gv {
				if _, ok := wv[k]; !ok {
					// an unrequested subtree that holds nothing but helper fields is reported as those helpers
					if hs := helperLeaves(y); len(hs) > 0 && keyClass(k) == "<field>" {
						for h := range hs {
							set["diff:EXTRA "+h] = true
						}
						continue
					}
					set["diff:EXTRA "+keyClass(k)] = true
				}
			}
		case []interface{}:
			gv, ok := g.([]interface{})
			if !ok {
				set[fmt.Sprintf("diff:TYPE want list got %s at %s", kindOf(g), keyClass(key))] = true
				return
			}
			if len(wv) != len(gv) {
				set["diff:LISTLEN at "+keyClass(key)] = true
				return
			}
			for i := range wv {
				rec(wv[i], gv[i], key)
			}
		default:
			if !reflect.DeepEqual(w, g) {
				if w == nil || g == nil {
					set[fmt.Sprintf("diff:NULL want %s got %s at %s", kindOf(w), kindOf(g), keyClass(key))] = true
				} else {
					set["diff:VALUE at "+keyClass(key)] = true
				}
			}
		}
	}
	rec(want, got, "data")
	out := make([]string, 0, len(set))
	for k := range set {
		out = append(out, k)
	}
	sort.Strings(out)
	return out
}

func kindOf(v interface{}) string {
	switch v.(type) {
	case nil:
		return "null"
	case map[string]interface{}:
		return "object"
	case []interface{}:
		return "list"
	case string:
		return "string"
	case float64:
		return "number"
	case bool:
		return "bool"
	}
	return fmt.Sprintf("%T", v)
}

// onlyHelpers reports whether a selection set (fragments flattened) selects nothing but
// id / __typename.
func onlyHelpers(ss ast.SelectionSet) bool {
	for _, sel := range ss {
		switch x := sel.(type) {
		case *ast.Field:
			if x.Name != "id" && x.Name != "__typename" {
				return false
			}
		case *ast.InlineFragment:
			if !onlyHelpers(x.SelectionSet) {
				return false
			}
		case *ast.FragmentSpread:
			if x.Definition != nil && !onlyHelpers(x.Definition.SelectionSet) {
				return false
			}
		}
	}
	return true
}

func respKey(f *ast.Field) string {
	if f.Alias != "" {
		return f.Alias
	}
	return f.Name
}

// helperLeaves returns the helper key names (id, __typename) that make up all scalar leaves
// of v, or nil if v holds any other leaf (or no leaf at all).
func helperLeaves(v interface{}) map[string]bool {
	out := map[string]bool{}
	ok := true
	var rec func(x interface{}, key string)
	rec = func(x interface{}, key string) {
		switch t := x.(type) {
		case map[string]interface{}:
			for k, y := range t {
				rec(y, k)
			}
		case []interface{}:
			for _, y := range t {
				rec(y, key)
			}
		case nil:
		default:
			if key == "id" || key == "__typename" {
				out[key] = true
			} else {
				ok = false
			}
		}
	}
	switch v.(type) {
	case map[string]interface{}, []interface{}:
		rec(v, "")
	default:
		return nil
	}
	if !ok || len(out) == 0 {
		return nil
	}
	return out
}

func dirText(ds ast.DirectiveList) string {
	var b strings.Builder
	for _, d := range ds {
		b.WriteString("@" + d.Name)
		for _, a := range d.Arguments {
			b.WriteString("(" + a.Name + ":" + a.Value.String() + ")")
		}
	}
	return b.String()
}
