package a

import (
	"bytes"
	"context"
	"encoding/json"
	"fmt"
	"io"
	"net/http"
	"net/http/httptest"
	"sync"
	"time"

	"verif/gqlref"

	"github.com/buildbuildio/pebbles"
	"github.com/buildbuildio/pebbles/executor"
	"github.com/buildbuildio/pebbles/introspection"
	"github.com/buildbuildio/pebbles/merger"
	"github.com/buildbuildio/pebbles/planner"
	"github.com/buildbuildio/pebbles/queryer"
	"github.com/buildbuildio/pebbles/requests"
	"github.com/vektah/gqlparser/v2"
	"github.com/vektah/gqlparser/v2/ast"
	"github.com/vektah/gqlparser/v2/validator"
)

// Config is a gateway configuration that must not change results.
type Config struct {
	Merger  string // "extend" | "sanitize"
	Hint    bool   // WithGetParentTypeFromIDFunc
	Planner string // "plain" | "cached"
	BatchM  int    // downstream max batch size (0 = 3000)
	// IntroFail != 0: the schemas are fetched by the real ParallelRemoteSchemaIntrospector from
	// spec-shaped responders; k > 0: the introspection of service k-1 fails (-1: none fails)
	IntroFail int
	// DefaultFactory: no WithQueryerFactory option - the gateway's own factory makes the queryers
	// (they use http.DefaultClient, whose transport is pointed at the in-memory services)
	DefaultFactory bool
}

func (c Config) String() string {
	m := c.BatchM
	if m == 0 {
		m = 3000
	}
	out := fmt.Sprintf("merger=%s,hint=%v,planner=%s,m=%d", c.Merger, c.Hint, c.Planner, m)
	if c.IntroFail != 0 {
		out += fmt.Sprintf(",introfail=%d", c.IntroFail)
	}
	if c.DefaultFactory {
		out += ",default-queryer-factory"
	}
	return out
}

func (c Config) Atoms() []string {
	var a []string
	if c.Merger == "sanitize" {
		a = append(a, "cfg-sanitize-merger")
	}
	if c.Hint {
		a = append(a, "cfg-hint")
	}
	if c.Planner == "cached" {
		a = append(a, "cfg-cached-planner")
	}
	if c.IntroFail > 0 {
		a = append(a, "cfg-introspection-failure")
	}
	if c.DefaultFactory {
		a = append(a, "cfg-default-queryer-factory")
	}
	if c.BatchM != 0 && c.BatchM != 3000 {
		a = append(a, fmt.Sprintf("cfg-m%d", c.BatchM))
	}
	return a
}

var DefaultConfig = Config{Merger: "extend", Planner: "plain"}

type staticIntro struct{ s []*ast.Schema }

func (m *staticIntro) IntrospectRemoteSchemas(urls ...string) ([]*ast.Schema, error) { return m.s, nil }

type capMerger struct {
	inner merger.Merger
	res   *merger.MergeResult
}

func (c *capMerger) Merge(in []*merger.MergeInput) (*merger.MergeResult, error) {
	r, err := c.inner.Merge(in)
	c.res = r
	return r, err
}

// swapPlanner lets a harness install a fresh caching planner per case.
type swapPlanner struct{ inner planner.Planner }

func (s *swapPlanner) Plan(ctx *planner.PlanningContext) (*planner.QueryPlan, error) {
	return s.inner.Plan(ctx)
}

// Fed is one world behind one real gateway.
type Fed struct {
	W      *World
	Cfg    Config
	GW     *pebbles.Gateway
	Fakes  *Fakes
	Merged *ast.Schema
	TUM    merger.TypeURLMap
	// GWSchema is the schema object the gateway itself validates with (captured from its merger);
	// read-only for the harness
	GWSchema *ast.Schema
	sp       *swapPlanner
	docs     map[string]*ast.QueryDocument
	// Guard, if set, is asked before every downstream call with the planning context of the
	// queryer that makes it (Engine B: calls on behalf of a closed client connection fail)
	Guard func(pc *planner.PlanningContext, url string) error
	// RecordBound: every call through a queryer is noted together with the client operation the queryer was made for
	RecordBound bool
	boundMu     sync.Mutex
	BoundLog    []BoundCall
}

// NewFed merges the world's schemas with the real merger and builds the real gateway
// over the in-memory fake services.  Schemas are re-parsed so that no AST is shared
// between the gateway and the fake services.
func NewFed(w *World, cfg Config) (*Fed, error) {
	f := &Fed{W: w, Cfg: cfg, Fakes: NewFakes(w), docs: map[string]*ast.QueryDocument{}}
	var schemas []*ast.Schema
	for _, s := range w.Services {
		sc, err := gqlparser.LoadSchema(&ast.Source{Name: s.URL, Input: s.SDL})
		if err != nil {
			return nil, err
		}
		schemas = append(schemas, sc)
	}
	var inner merger.Merger
	if cfg.Merger == "sanitize" {
		var m merger.SanitizeNodeMergerFunc
		inner = m
	} else {
		var m merger.ExtendMergerFunc
		inner = m
	}
	cm := &capMerger{inner: inner}
	m := cfg.BatchM
	if m == 0 {
		m = 3000
	}
	var sp planner.SequentialPlanner
	f.sp = &swapPlanner{inner: sp}
	var intro introspection.RemoteSchemaIntrospector = &staticIntro{schemas}
	if cfg.IntroFail != 0 {
		byURL := map[string]queryer.Queryer{}
		for i, sv := range w.Services {
			if i == cfg.IntroFail-1 {
				byURL[sv.URL] = &downQueryer{url: sv.URL}
			} else {
				byURL[sv.URL] = &introQueryer{url: sv.URL, schema: schemas[i]}
			}
		}
		intro = &introspection.ParallelRemoteSchemaIntrospector{Factory: func(u string) queryer.Queryer { return byURL[u] }}
	}
	opts := []pebbles.GatewayOption{
		pebbles.WithRemoteSchemaIntrospector(intro),
		pebbles.WithMerger(cm),
		pebbles.WithPlanner(f.sp),
	}
	if cfg.DefaultFactory {
		f.useDefaultClient()
	} else {
		opts = append(opts, pebbles.WithQueryerFactory(func(pc *planner.PlanningContext, u string) queryer.Queryer {
			// like the default factory, a queryer belongs to the request it was made for: the default
			// factory reads the context of the client's request here (a request parsed without its
			// Original is a nil dereference in a worker goroutine)
			_ = pc.Request.Original.Context()
			c := &http.Client{Transport: &boundTransport{f: f, pc: pc, url: u}}
			return queryer.NewMultiOpQueryer(u, m).WithHTTPClient(c)
		}))
	}
	if cfg.Hint {
		opts = append(opts, pebbles.WithGetParentTypeFromIDFunc(executor.GetParentTypeFromIDFunc(w.TypeOfID)))
	}
	gw, err := pebbles.NewGateway(w.URLs(), opts...)
	if err != nil {
		return nil, err
	}
	f.GW = gw
	f.TUM = cm.res.TypeURLMap
	f.GWSchema = cm.res.Schema
	// the reference side works on a merged schema of its own (merged a second time from freshly
	// parsed service schemas): whatever the gateway does to its schema object at run time must
	// not reach the oracle
	var inputs []*merger.MergeInput
	for i, s := range w.Services {
		if cfg.IntroFail > 0 && i == cfg.IntroFail-1 {
			continue // a gateway that starts without this service serves the others
		}
		sc, err := gqlparser.LoadSchema(&ast.Source{Name: s.URL, Input: s.SDL})
		if err != nil {
			return nil, err
		}
		inputs = append(inputs, &merger.MergeInput{Schema: sc, URL: s.URL})
	}
	ref, err := inner.Merge(inputs)
	if err != nil {
		return nil, err
	}
	f.Merged = ref.Schema
	return f, nil
}

// boundTransport ties a queryer to the planning context it was created for: Fed.Guard (if set)
// may refuse a call made through a queryer whose client request is gone.
type boundTransport struct {
	f   *Fed
	pc  *planner.PlanningContext
	url string
}

// BoundCall: the sub-requests of one downstream call and the document of the client operation whose queryer carried them
type BoundCall struct {
	OpQuery string
	Subs    []string
}

func (b *boundTransport) RoundTrip(r *http.Request) (*http.Response, error) {
	if b.f.RecordBound && r.Body != nil {
		body, _ := io.ReadAll(r.Body)
		r.Body = io.NopCloser(bytes.NewReader(body))
		var reqs []struct {
			Query string `json:"query"`
		}
		if json.Unmarshal(body, &reqs) == nil {
			bc := BoundCall{OpQuery: b.pc.Request.Query}
			for _, q := range reqs {
				bc.Subs = append(bc.Subs, q.Query)
			}
			b.f.boundMu.Lock()
			b.f.BoundLog = append(b.f.BoundLog, bc)
			b.f.boundMu.Unlock()
		}
	}
	if b.f.Guard != nil {
		if err := b.f.Guard(b.pc, b.url); err != nil {
			return nil, err
		}
	}
	return b.f.Fakes.RoundTrip(r)
}

// Obs is everything observed for one case.
type Obs struct {
	Case     Case
	Valid    bool
	GenError string
	Op       *ast.OperationDefinition
	Doc      *ast.QueryDocument
	RefData  interface{} // reference data (JSON-normalised)
	RefErr   string
	Status   int
	Body     []byte
	Resp     map[string]interface{}
	BadJSON  bool
	Reqs     []*SubReq
	Calls    []HTTPCall
	Other    []string
	Seen     map[string]bool
	Coerced  map[string]interface{}
}

func (f *Fed) load(q string) (*ast.QueryDocument, string) {
	if d, ok := f.docs[q]; ok {
		return d, ""
	}
	d, errs := gqlparser.LoadQuery(f.Merged, q)
	if errs != nil {
		return nil, errs[0].Message
	}
	if len(f.docs) > 20000 {
		f.docs = map[string]*ast.QueryDocument{}
	}
	f.docs[q] = d
	return d, ""
}

func pickOp(d *ast.QueryDocument, name string) *ast.OperationDefinition {
	if name != "" {
		return d.Operations.ForName(name)
	}
	if len(d.Operations) == 1 {
		return d.Operations[0]
	}
	return nil
}

// Post sends a raw body to the real handler.
func (f *Fed) Post(body []byte, contentType string) (int, []byte) {
	// like net/http's server, the context of the request ends when the handler has returned
	ctx, cancel := context.WithCancel(context.Background())
	defer cancel()
	r, _ := http.NewRequestWithContext(ctx, "POST", "/", bytes.NewReader(body))
	if contentType != "" {
		r.Header.Set("Content-Type", contentType)
	}
	if f.Cfg.DefaultFactory {
		f.useDefaultClient()
	}
	rr := httptest.NewRecorder()
	f.GW.Handler(rr, r)
	// net/http's server removes the files a multipart form was spooled to once the handler has returned
	if r.MultipartForm != nil {
		r.MultipartForm.RemoveAll()
	}
	return rr.Code, rr.Body.Bytes()
}

func caseBody(c Case) []byte {
	m := map[string]interface{}{"query": c.Q}
	if c.Vars != nil {
		m["variables"] = c.Vars
	}
	if c.OpName != "" {
		m["operationName"] = c.OpName
	}
	b, _ := json.Marshal(m)
	return b
}

// Run executes one case: reference first, then the real gateway.
func (f *Fed) Run(c Case) *Obs {
	o := &Obs{Case: c, Seen: map[string]bool{}}
	doc, gerr := f.load(c.Q)
	if doc == nil {
		o.GenError = gerr
		return o
	}
	op := pickOp(doc, c.OpName)
	if op == nil {
		o.GenError = "operation not selectable"
		return o
	}
	o.Valid, o.Op, o.Doc = true, op, doc
	// variables as the client's JSON would carry them
	var rawVars map[string]interface{}
	if c.Vars != nil {
		b, _ := json.Marshal(c.Vars)
		json.Unmarshal(b, &rawVars)
	}
	ref, err := gqlref.Execute(f.Merged, f.W.Monolith(f.Merged, Counters{}), op, rawVars, o.Seen)
	if err != nil {
		o.RefErr = err.Error()
	}
	o.Coerced, _ = validator.VariableValues(f.Merged, op, rawVars)
	o.RefData = gqlref.Norm(ref)

	f.Fakes.Reset()
	if f.Cfg.Planner == "cached" {
		f.sp.inner = planner.NewCachedPlanner(time.Hour)
	}
	o.Status, o.Body = f.Post(caseBody(c), "application/json")
	if err := json.Unmarshal(o.Body, &o.Resp); err != nil {
		o.BadJSON = true
	}
	o.Reqs, o.Calls, o.Other = f.Fakes.Reqs, f.Fakes.Calls, f.Fakes.Other
	return o
}

// SetPlanner installs the planner used for the next requests (Engine B histories).
func (f *Fed) SetPlanner(p planner.Planner) { f.sp.inner = p }

// downQueryer is a service that is down: every call fails at transport level.
type downQueryer struct{ url string }

func (q *downQueryer) URL() string { return q.url }
func (q *downQueryer) Query([]*requests.Request) ([]map[string]interface{}, error) {
	return nil, fmt.Errorf("Post %q: dial tcp: connection refused", q.url)
}
func (q *downQueryer) Subscribe(*requests.Request, <-chan struct{}, chan *requests.Response) error {
	return fmt.Errorf("dial tcp: connection refused")
}

// useDefaultClient points http.DefaultClient (what the gateway's own queryer factory uses) at
// this federation's in-memory services.  One federation at a time owns the default client.
func (f *Fed) useDefaultClient() {
	http.DefaultClient.Transport = f.Fakes
}
