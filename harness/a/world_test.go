package a

import (
	"testing"
)

func TestAllWorldsBuild(t *testing.T) {
	n := 0
	for _, wd := range EnumWorlds([]string{"Wmin", "W0"}, 1, 1) {
		w, err := wd.Build()
		if err != nil {
			t.Fatalf("%s: %v", wd.Name(), err)
		}
		f, err := NewFed(w, DefaultConfig)
		if err != nil {
			t.Errorf("%s: gateway: %v", wd.Name(), err)
			continue
		}
		_ = f
		n++
	}
	t.Logf("%d worlds", n)
}
