package a

import (
	"encoding/json"
	"fmt"
	"sort"
	"strings"
	"time"

	"github.com/buildbuildio/pebbles/planner"
	"github.com/vektah/gqlparser/v2/ast"
)

// C06: every mutation root field reaches its owning service exactly once.

var c06Faults = []string{"transport", "transport-eof", "transport-reset", "status500", "errors1", "short", "notjson", "datanull"}

// mutationExpect returns field name -> number of client root selections.
// c06Vars are the variables of the case being judged (for the @skip / @include of root selections)
var c06Vars map[string]interface{}

// mutationExpect: how often each mutation root field has to be executed - once per response key under which it is
// selected (selections of one key are one field) and which at least one of its selections leaves in the operation.
func mutationExpect(op *ast.OperationDefinition) map[string]int {
	included := func(ds ast.DirectiveList) bool {
		for _, d := range ds {
			if d.Name != "skip" && d.Name != "include" {
				continue
			}
			a := d.Arguments.ForName("if")
			if a == nil || a.Value == nil {
				continue
			}
			v, _ := a.Value.Value(c06Vars)
			b, _ := v.(bool)
			if (d.Name == "skip" && b) || (d.Name == "include" && !b) {
				return false
			}
		}
		return true
	}
	keys := map[string]string{} // response key -> field name, for the keys that stay
	var walk func(ss ast.SelectionSet, in bool)
	walk = func(ss ast.SelectionSet, in bool) {
		for _, s := range ss {
			switch x := s.(type) {
			case *ast.Field:
				if !strings.HasPrefix(x.Name, "__") && in && included(x.Directives) {
					k := x.Alias
					if k == "" {
						k = x.Name
					}
					keys[k] = x.Name
				}
			case *ast.InlineFragment:
				walk(x.SelectionSet, in && included(x.Directives))
			case *ast.FragmentSpread:
				if x.Definition != nil {
					walk(x.Definition.SelectionSet, in && included(x.Directives))
				}
			}
		}
	}
	walk(op.SelectionSet, true)
	out := map[string]int{}
	for _, name := range keys {
		out[name]++
	}
	return out
}

// c06Check inspects the service logs of one execution; mult = how many times the
// operation was contained in the client request.
func c06Check(f *Fed, op *ast.OperationDefinition, mult int, faulted bool) []string {
	set := map[string]bool{}
	exp := mutationExpect(op)
	got := map[string]int{}
	for _, sr := range f.Fakes.Reqs {
		isMut := sr.Keyword == ast.Mutation || (sr.Doc == nil && strings.HasPrefix(strings.TrimSpace(sr.Query), "mutation"))
		roots := sr.Roots
		if isMut {
			for _, r := range roots {
				owner, ok := f.W.owner["Mutation."+r]
				if !ok {
					if r != "node" {
						set["mutation request carries a non-mutation root field"] = true
					}
					continue
				}
				if owner != sr.Svc {
					set["mutation root field sent to a service that does not own it"] = true
					continue
				}
				got[r]++
			}
		} else {
			for _, r := range roots {
				if _, ok := exp[r]; ok && f.Merged.Mutation != nil && f.Merged.Mutation.Fields.ForName(r) != nil &&
					(f.Merged.Query == nil || f.Merged.Query.Fields.ForName(r) == nil) {
					set["mutation root field sent with a non-mutation operation keyword"] = true
				}
			}
		}
		if isMut {
			// follow-up lookups must be queries: a mutation request must only carry client root fields
			for _, r := range roots {
				if r == "node" {
					set["follow-up node lookup issued as a mutation"] = true
				}
			}
		}
	}
	for name, n := range exp {
		want := n * mult
		g := got[name]
		switch {
		case g > want:
			set[fmt.Sprintf("mutation root field received %dx instead of %dx", min(g/maxi(want, 1), 9), 1)] = true
		case g < want && !faulted:
			set["mutation root field not delivered to its owner"] = true
		case g < want && faulted:
			// a fault may legitimately prevent delivery only if it hit the carrying call itself; never observed as duplicate
		}
		// executed count at the owner (resolver counter) must agree with the log
		if owner, ok := f.W.owner["Mutation."+name]; ok {
			if c := f.Fakes.Cnt[owner][name]; c > want {
				set["mutation executed more often than requested"] = true
			} else if c < want && g >= want && !faulted {
				// it arrived - under a condition of the gateway's making that took it out again
				set["mutation root field delivered to its owner in a form that is not executed"] = true
			}
		}
	}
	out := make([]string, 0, len(set))
	for k := range set {
		out = append(out, k)
	}
	sort.Strings(out)
	return out
}

func maxi(a, b int) int {
	if a > b {
		return a
	}
	return b
}

func c06Jobs(tier string) []string {
	var jobs []string
	worlds := []string{"W0", "W0+mutation-second-service", "Wmin+mutation-second-service", "W0+mutation-second-service+third-service",
		"W0+same-root-name-query-mutation", "W0+mutation-second-service+entity-ref-self", "W0+mutation-second-service+n2-backref-list",
		"W0+mutation-null-and-empty-results", "Wmin+mutation-null-and-empty-results+mutation-second-service"}
	k := 4
	ms := []string{"", "m1", "m2"}
	if tier == "thorough" {
		k = 5
		worlds = append(worlds, "W0+mutation-second-service+value-type-entity-ref", "W0+mutation-second-service+entity-list-self", "W0+mutation-second-service+data-dup-in-list",
			"W0+mutation-second-service+same-root-name-query-mutation")
	}
	for _, w := range worlds {
		for _, m := range ms {
			for _, pl := range []string{"p", "c"} {
				jobs = append(jobs, fmt.Sprintf("%s|e0%s%s|mutK%d", w, pl, m, k))
			}
		}
		// id -> type hint configured (the executor then decides per lookup whether to query)
		jobs = append(jobs, fmt.Sprintf("%s|e1p|mutK%d", w, k), fmt.Sprintf("%s|s1c|mutK%d", w, k-1))
	}
	// start-up with one service not answering its introspection: a gateway that starts nevertheless
	// is held to the same oracle over the services it did learn about
	for _, w := range []string{"W0+mutation-second-service", "Wmin+mutation-second-service", "W0+mutation-second-service+third-service"} {
		n := 2 + strings.Count(w, "third-service")
		for i := 1; i <= n; i++ {
			jobs = append(jobs, fmt.Sprintf("%s|e0pi%d|mutK3", w, i))
		}
	}
	return jobs
}

func init() {
	Props["C06"] = &Prop{
		ID:    "C06",
		Level: "fault_enumeration",
		Rule: "case = (world with mutation roots on 1-3 services, downstream batch size m in {1,2,3000}, planner plain/cached, every mutation operation with <=K fields incl. the same field twice under aliases) " +
			"x delivery mode {single, twice on a warm plan cache, batch of two, selected by operationName out of a document that begins with a query (alone and as a batch of two)} x fault plan {none, each fault kind on each downstream HTTP call of the execution}; plus start-up through the real introspector with one service (each position) failing its introspection " +
			"(a gateway that starts anyway is held to the same oracle); oracle on the services' request logs and execution counters; non-trivial = reached a service",
		Assumptions: []string{"the in-memory services' logs are the observation; faults are answered after the request was logged (the service did receive it)"},
		Jobs:        c06Jobs,
		Budget: func(tier string) time.Duration {
			if tier == "quick" {
				return 120 * time.Second
			}
			return 10 * time.Minute
		},
		RunJob: func(tier, job string, from int, em *Emitter) {
			wd, cfg, opset := parseJob(job)
			w, err := wd.Build()
			if err != nil {
				em.GenError("world: " + err.Error())
				return
			}
			f, err := NewFed(w, cfg)
			if err != nil && cfg.IntroFail > 0 {
				// the gateway does not start without the service: nothing can be sent anywhere
				if em.Begin(0, append(append([]string{}, w.Atoms...), cfg.Atoms()...), replayCase{World: wd.Name(), Cfg: cfg.String(), Extra: "startup refused: " + Template(err.Error())}) {
					em.Done(false)
				}
				return
			}
			if err != nil {
				em.GenError("gateway: " + err.Error())
				return
			}
			cases := casesFor(f, opset)
			// the same mutation field twice under aliases
			var extra []Case
			for _, c := range cases {
				if strings.Count(c.Q, "{") == 2 && !strings.Contains(c.Q, " b: ") {
					inner := strings.TrimSuffix(strings.TrimPrefix(c.Q, "mutation { "), " }")
					if !strings.Contains(inner, " ") || strings.HasSuffix(inner, ")") && strings.Count(inner, "(") == 1 && !strings.Contains(inner[:strings.Index(inner, "(")], " ") {
						extra = append(extra, Case{Q: "mutation { " + inner + " b: " + inner + " }", Vars: map[string]interface{}{}, Dec: "twice"})
					}
				}
			}
			cases = append(cases, extra...)
			// named variants: the operation name travels into the plan
			var named []Case
			for _, c := range cases {
				if strings.HasPrefix(c.Q, "mutation {") && len(c.Q) < 60 {
					named = append(named, Case{Q: "mutation SaveIt" + strings.TrimPrefix(c.Q, "mutation"), Vars: map[string]interface{}{}, OpName: "SaveIt", Dec: "named"})
				}
			}
			cases = append(cases, named...)
			// arguments carried by variables (also one called `id`, the name the planner uses
			// for the stitching key, and one used by two fields)
			var withVars []Case
			for _, c := range cases {
				if c.Dec != "" && c.Dec != "plain" || strings.Count(c.Q, "{") > 2 {
					continue
				}
				for _, d := range Decorate(f.Merged, c.Q) {
					k := d.Dec[:strings.Index(d.Dec, "@")]
					if k == "argVar" || k == "argVarNamedId" || k == "argVarDefault" || k == "varTwice" || k == "rootTypename" || k == "rootTypenameAliased" {
						withVars = append(withVars, d)
					}
				}
			}
			cases = append(cases, withVars...)
			for i := from; i < len(cases); i++ {
				c := cases[i]
				rp := replayCase{World: wd.Name(), Cfg: cfg.String(), Query: c.Q, Vars: c.Vars, Dec: c.Dec}
				atoms := preAtoms(f, c)
				if !em.Begin(i, atoms, rp) {
					if em.Capped() {
						return
					}
					continue
				}
				doc, gerr := f.load(c.Q)
				if doc == nil {
					em.GenError(gerr + " :: " + c.Q)
					em.Done(false)
					continue
				}
				op := doc.Operations[0]
				c06Vars = c.Vars
				if c.OpName != "" {
					rp.OpName = c.OpName
				}
				body := caseBody(c)
				fail := func(mode string, sigs []string) {
					if len(sigs) == 0 {
						return
					}
					r := rp
					r.Extra = mode
					em.Fail(append(append([]string{}, atoms...), "mode-"+strings.SplitN(mode, ":", 2)[0]), sigs, r)
				}
				// single, no fault
				f.Fakes.FaultFor = nil
				if cfg.Planner == "cached" {
					f.sp.inner = planner.NewCachedPlanner(time.Hour)
				}
				f.Fakes.Reset()
				f.Post(body, "application/json")
				ncalls := len(f.Fakes.Calls)
				nontrivial := len(f.Fakes.Reqs) > 0
				fail("single", c06Check(f, op, 1, false))
				// again on the warm plan cache
				if cfg.Planner == "cached" {
					f.Fakes.Reset()
					f.Post(body, "application/json")
					fail("warm-cache", c06Check(f, op, 1, false))
				}
				// batch of two
				f.Fakes.Reset()
				bb, _ := json.Marshal([]json.RawMessage{body, body})
				f.Post(bb, "application/json")
				fail("batch2", c06Check(f, op, 2, false))
				// the mutation selected by operationName out of a document that begins with a query, alone and as a batch of two
				if q := strings.TrimSpace(c.Q); strings.HasPrefix(q, "mutation") && len(doc.Operations) == 1 {
					c2 := c
					c2.OpName = op.Name
					if op.Name == "" {
						c2.OpName = "VerifSel"
						q = strings.Replace(q, "mutation", "mutation VerifSel", 1)
					}
					c2.Q = "query VerifLead { __typename } " + q
					if d2, _ := f.load(c2.Q); d2 != nil {
						body2 := caseBody(c2)
						f.Fakes.Reset()
						f.Post(body2, "application/json")
						fail("selected-by-name", c06Check(f, op, 1, false))
						f.Fakes.Reset()
						bb2, _ := json.Marshal([]json.RawMessage{body2, body2})
						f.Post(bb2, "application/json")
						fail("selected-by-name-batch2", c06Check(f, op, 2, false))
					}
				}
				// every single fault on every downstream call
				for call := 0; call < ncalls; call++ {
					for _, kind := range c06Faults {
						kind, call := kind, call
						f.Fakes.Reset()
						f.Fakes.FaultFor = func(cidx, svc, n int) *Fault {
							if cidx == call {
								return &Fault{Kind: kind, Pos: 0}
							}
							return nil
						}
						f.Post(body, "application/json")
						fail(fmt.Sprintf("fault:%s@call%d", kind, call), c06Check(f, op, 1, true))
						em.Extra("fault-runs", 1)
					}
				}
				f.Fakes.FaultFor = nil
				if i%211 == 0 {
					em.Sample(map[string]interface{}{"case": rp, "downstream_calls": ncalls})
				}
				em.Done(nontrivial)
			}
		},
	}
}
