package a

import (
	"encoding/json"
	"fmt"
	"strings"
	"time"

	"github.com/buildbuildio/pebbles/planner"
)

// Race complement pass of the schedule-exploring checks (DESIGN §4.4).  The explorer of Engine B
// schedules at synchronisation operations only; that covers every behaviour provided the code
// under test has no unsynchronised conflicting accesses.  This part checks the proviso: the same
// kind of harness bodies (client batches through the real handler, uploads in a batch) run
// free on real goroutines in a binary built with -race, and every data race the detector
// reports in the code under test is a failing group.  It is registered under the id of the
// property whose exploration relies on it and merged into that property's evidence.

var racePool = []string{
	"{ echo(x: 3) }",
	"{ n2 { title } }",
	"{ n1s { name phone } }",
	"{ n2 { owner { name n2s { title } } } }",
	"mutation { incr(by: 3) }",
	"{ __schema { queryType { name } } }",
	"{ nope }",
	"{ v { a } }",       // the service answers this one with GraphQL errors
	"{ v { w { b } } }", // the call carrying this one fails at transport level
	"query A { echo } query B { echo }",
	"{ __typename n1s { id } }",
	"{ __typename v { w { b } } }", // gateway-answered field next to a failing service field
	// operations without a variables object whose variables have defaults of their own
	"query ($a: Int = 5) { echo(x: $a) }",
	"query ($a: Int = 8) { echo(x: $a) }",
	"query ($a: Int) { echo(x: $a) }",
}

// raceRefOps are answered without faults: what they receive alone is known from the reference model
// (and not only from this gateway, whose earlier requests may have left something behind)
var raceRefOps = map[string]bool{"query ($a: Int = 5) { echo(x: $a) }": true, "query ($a: Int = 8) { echo(x: $a) }": true, "query ($a: Int) { echo(x: $a) }": true}

func raceFault(q string) *Fault {
	nq := strings.Join(strings.Fields(q), " ")
	switch {
	case strings.Contains(nq, "v { a }"):
		return &Fault{Kind: "errors1", Pos: 0}
	case strings.Contains(nq, "w { b }"):
		return &Fault{Kind: "transport"}
	}
	return nil
}

func init() {
	// C07 (no request can crash the gateway): its enumeration runs one request at a time; the same
	// harness bodies sent concurrently under the race detector are its complement (a data race on the
	// request path is a crash waiting for its schedule: concurrent map writes are fatal errors)
	Props["C07race"] = &Prop{
		ID:    "C07",
		Key:   "C07race",
		Level: "other",
		Rule: "race complement pass: client batches of length 2-3 over the operation pool of the C08 pass (one eighth of them) and over 5 operations through the caching planner at a 1 ms TTL (4 rounds 2 ms apart), " +
			"through the real handler of a binary built with -race, free-running; the process survives, every batch is answered with an array of the right length and the race detector reports no data race with a frame in the code under test",
		Assumptions: []string{"the race detector sees the interleavings the Go scheduler happens to produce in this run (a complement to, not part of, the exhaustive enumeration)"},
		Jobs: func(tier string) []string {
			return []string{"W0|e0c|raceexpiry#0/1", "W0|e0p|race#0/8", "W0|e0p|race#4/8"}
		},
		Budget: func(tier string) time.Duration { return 90 * time.Second },
		RunJob: func(tier, job string, from int, em *Emitter) { Props["C08"].RunJob(tier, job, from, em) },
	}
	Props["C08"] = &Prop{
		ID:    "C08",
		Level: "other",
		Rule: "race complement pass: every client batch of length 2 and a fifth of the batches of length 3 over a 15-operation pool (queries on either service, cross-service, a mutation, introspection, invalid, ambiguous, root __typename next to a failing field, variables with defaults and no variables object, " +
			"service errors, transport failure, root __typename), each sent 3 times through the real handler of a binary built with -race, free-running; result i must equal the single answer of operation i, a queryer made for one operation carries no sub-request of another one (the factory may tailor queryers per operation) and the race " +
			"detector must report no data race with a frame in the code under test; the same with the caching planner at a 1 ms TTL (every batch of length 2-3 over 5 operations, 4 rounds 2 ms apart, so that concurrent planners meet expired entries); " +
			"multipart batches with 100 kB files; one batch of 96 cross-service operations (answered, in order); non-trivial = batch of >=2 operations",
		Assumptions: []string{"the race detector sees the interleavings the Go scheduler happens to produce in this run (a complement to, not part of, the exhaustive exploration)"},
		Jobs: func(tier string) []string {
			var jobs []string
			for s := 0; s < 8; s++ {
				jobs = append(jobs, fmt.Sprintf("W0|e0p|race#%d/8", s))
			}
			// the plan cache with entries expiring between the rounds (every round finds expired entries and plans concurrently)
			jobs = append(jobs, "W0|e0c|raceexpiry#0/1")
			// multipart batches: files of 100 kB used by one or by both operations
			jobs = append(jobs, "W0+upload-roots+upload-second-service|e0p|raceuploads#0/1")
			return jobs
		},
		Budget: func(tier string) time.Duration { return 90 * time.Second },
		RunJob: func(tier, job string, from int, em *Emitter) {
			wd, cfg, opset := parseJob(job)
			var sh, n int
			fmt.Sscanf(opset[strings.Index(opset, "#")+1:], "%d/%d", &sh, &n)
			w, err := wd.Build()
			if err != nil {
				em.GenError(err.Error())
				return
			}
			f, err := NewFed(w, cfg)
			if err != nil {
				em.GenError(err.Error())
				return
			}
			if strings.HasPrefix(opset, "raceexpiry") {
				raceExpiry(f, wd, from, em)
				return
			}
			if strings.HasPrefix(opset, "raceuploads") {
				raceUploads(f, wd, from, em)
				return
			}
			f.Fakes.FaultByQuery = raceFault
			// the single answers are fetched inside the first case that needs them (a gateway
			// that dies answering an operation alone is that case's crash)
			single := map[string]string{}
			// the sub-requests an operation sends when it travels alone: in a batch, a queryer (made by the factory for one
			// operation, which may tailor it to that operation) carries requests of its own operation only
			f.RecordBound = true
			aloneSubs := map[string]map[string]bool{}
			singleOf := func(q string) string {
				if v, ok := single[q]; ok {
					return v
				}
				f.Fakes.Reset()
				f.BoundLog = nil
				_, b := f.Post(caseBody(Case{Q: q}), "application/json")
				aloneSubs[q] = map[string]bool{}
				for _, bc := range f.BoundLog {
					for _, sq := range bc.Subs {
						aloneSubs[q][sq] = true
					}
				}
				v := canonJSON(b)
				if raceRefOps[q] {
					if o := f.Run(Case{Q: q}); o.Valid && o.RefErr == "" {
						rb, _ := json.Marshal(map[string]interface{}{"data": o.RefData})
						v = canonJSON(rb)
					}
				}
				single[q] = v
				return v
			}
			var batches [][]string
			for _, a := range racePool {
				for _, b := range racePool {
					if strings.HasPrefix(a, "mutation") && strings.HasPrefix(b, "mutation") {
						continue // the services' mutation counter is shared state
					}
					batches = append(batches, []string{a, b})
				}
			}
			k := 0
			for _, a := range racePool {
				for _, b := range racePool {
					for _, c := range racePool {
						k++
						muts := 0
						for _, q := range []string{a, b, c} {
							if strings.HasPrefix(q, "mutation") {
								muts++
							}
						}
						if k%5 == 0 && muts <= 1 {
							batches = append(batches, []string{a, b, c})
						}
					}
				}
			}
			idx := 0
			for bi, bt := range batches {
				if bi%n != sh {
					continue
				}
				idx++
				if idx-1 < from {
					continue
				}
				rp := map[string]interface{}{"world": wd.Name(), "batch": bt}
				if !em.Begin(idx-1, []string{"race-pass", fmt.Sprintf("len%d", len(bt))}, rp) {
					if em.Capped() {
						return
					}
					continue
				}
				var list []json.RawMessage
				for _, q := range bt {
					list = append(list, caseBody(Case{Q: q}))
					singleOf(q)
				}
				body, _ := json.Marshal(list)
				set := map[string]bool{}
				for rep := 0; rep < 3; rep++ {
					f.Fakes.Reset()
					f.BoundLog = nil
					_, rb := f.Post(body, "application/json")
					for _, bc := range f.BoundLog {
						for _, sq := range bc.Subs {
							if subs, ok := aloneSubs[bc.OpQuery]; ok && !subs[sq] {
								set["a queryer made for one operation of the batch carried a request of another one"] = true
							}
						}
					}
					var res []json.RawMessage
					if err := json.Unmarshal(rb, &res); err != nil || len(res) != len(bt) {
						set["batch not answered with an array of the right length"] = true
						continue
					}
					for i, q := range bt {
						if strings.HasPrefix(q, "mutation") {
							continue // counter values differ between runs
						}
						if canonJSON(res[i]) != single[q] {
							set["result at position i differs from the single-request answer of operation i"] = true
						}
					}
				}
				if len(set) > 0 {
					var sigs []string
					for s := range set {
						sigs = append(sigs, s)
					}
					em.Fail([]string{"race-pass"}, sigs, rp)
				}
				if idx%97 == 0 {
					em.Sample(rp)
				}
				em.Done(true)
			}
			if sh == 0 && idx >= from {
				// one long batch: 96 cross-service operations in flight at once (more than any round number of workers or slots).
				// Every other case of this pass is answered within milliseconds; a batch that is not answered within two minutes
				// hangs (the goroutines it left behind would hold whatever they wait on: the job ends there)
				rp := map[string]interface{}{"world": wd.Name(), "batch": "96 x " + racePool[3]}
				if em.Begin(idx, []string{"race-pass", "len96"}, rp) {
					var list []json.RawMessage
					for i := 0; i < 96; i++ {
						list = append(list, caseBody(Case{Q: racePool[3]}))
					}
					want := singleOf(racePool[3])
					body, _ := json.Marshal(list)
					done := make(chan []byte, 1)
					f.Fakes.Reset()
					go func() { _, rb := f.Post(body, "application/json"); done <- rb }()
					var sigs []string
					select {
					case rb := <-done:
						var res []json.RawMessage
						if err := json.Unmarshal(rb, &res); err != nil || len(res) != 96 {
							sigs = append(sigs, "batch not answered with an array of the right length")
						} else {
							for i := range res {
								if canonJSON(res[i]) != want {
									sigs = append(sigs, "result at position i differs from the single-request answer of operation i")
									break
								}
							}
						}
					case <-time.After(2 * time.Minute):
						sigs = append(sigs, "a batch of 96 operations is never answered")
					}
					if len(sigs) > 0 {
						em.Fail([]string{"race-pass", "len96"}, sigs, rp)
						em.Done(true)
						return
					}
					em.Done(true)
				}
			}
		},
	}
}

// raceUploads sends every two-operation upload layout with 100 kB files (several copy chunks, so
// that concurrent readers of one file really overlap) three times and judges it like C19 does.
func raceUploads(f *Fed, wd WorldDesc, from int, em *Emitter) {
	big := func(tag string) string { return strings.Repeat(tag+"0123456789abcdef", 100*1024/17+1) }
	idx := 0
	for _, l := range upLayouts("quick", true) {
		if len(l.Ops) < 2 {
			continue
		}
		usable := true
		for _, o := range l.Ops {
			if d, _ := f.load(o.Q); d == nil {
				usable = false
			}
		}
		if !usable {
			continue
		}
		idx++
		if idx-1 < from {
			continue
		}
		ll := l
		ll.Files = nil
		for i, fl := range l.Files {
			fl.Content = big(fmt.Sprint(i))
			ll.Files = append(ll.Files, fl)
		}
		rp := map[string]interface{}{"world": wd.Name(), "layout": l.Desc, "files": "100 kB each"}
		if !em.Begin(idx-1, []string{"race-pass", "uploads"}, rp) {
			if em.Capped() {
				return
			}
			continue
		}
		body, ct := ll.body()
		set := map[string]bool{}
		for rep := 0; rep < 3; rep++ {
			f.Fakes.Reset()
			status, rb := f.Post([]byte(body), ct)
			sigs, _, _ := JudgeUpload(f, ll, status, rb)
			for _, s := range sigs {
				set[s] = true
			}
		}
		if len(set) > 0 {
			var sigs []string
			for s := range set {
				sigs = append(sigs, s)
			}
			em.Fail([]string{"race-pass", "uploads"}, sigs, rp)
		}
		em.Done(true)
	}
}

// raceExpiry sends batches through a gateway whose plan cache expires after 1 ms, several rounds
// 2 ms apart: the per-operation goroutines of a round plan at the same time and all of them meet
// the expired entries of the round before.
func raceExpiry(f *Fed, wd WorldDesc, from int, em *Emitter) {
	pool := []string{"{ echo(x: 3) }", "{ n2 { title } }", "{ n1s { name phone } }", "{ n2 { owner { name } } }", "{ __typename n1s { id } }"}
	single := map[string]string{}
	for _, q := range pool {
		f.Fakes.Reset()
		_, b := f.Post(caseBody(Case{Q: q}), "application/json")
		single[q] = canonJSON(b)
	}
	var batches [][]string
	for _, a := range pool {
		for _, b := range pool {
			batches = append(batches, []string{a, b})
			for _, c := range pool {
				batches = append(batches, []string{a, b, c})
			}
		}
	}
	f.sp.inner = planner.NewCachedPlanner(time.Millisecond)
	for idx, bt := range batches {
		if idx < from {
			continue
		}
		rp := map[string]interface{}{"world": wd.Name(), "batch": bt, "planner": "cached, ttl 1ms"}
		if !em.Begin(idx, []string{"race-pass", "cache-expiry", fmt.Sprintf("len%d", len(bt))}, rp) {
			if em.Capped() {
				return
			}
			continue
		}
		var list []json.RawMessage
		for _, q := range bt {
			list = append(list, caseBody(Case{Q: q}))
		}
		body, _ := json.Marshal(list)
		set := map[string]bool{}
		for rep := 0; rep < 4; rep++ {
			time.Sleep(2 * time.Millisecond)
			f.Fakes.Reset()
			_, rb := f.Post(body, "application/json")
			var res []json.RawMessage
			if err := json.Unmarshal(rb, &res); err != nil || len(res) != len(bt) {
				set["batch not answered with an array of the right length"] = true
				continue
			}
			for i, q := range bt {
				if canonJSON(res[i]) != single[q] {
					set["result at position i differs from the single-request answer of operation i"] = true
				}
			}
		}
		if len(set) > 0 {
			em.Fail([]string{"race-pass", "cache-expiry"}, setToList(set), rp)
		}
		if idx%37 == 0 {
			em.Sample(rp)
		}
		em.Done(true)
	}
}
