package a

import (
	"bytes"
	"encoding/json"
	"fmt"
	"io"
	"mime"
	"mime/multipart"
	"net"
	"net/http"
	"os"
	"sort"
	"strings"
	"sync"
	"sync/atomic"
	"syscall"

	"verif/gqlref"

	"github.com/vektah/gqlparser/v2"
	"github.com/vektah/gqlparser/v2/ast"
	"github.com/vektah/gqlparser/v2/parser"
	"github.com/vektah/gqlparser/v2/validator"
)

// SubReq is one GraphQL request received by a fake service.
type SubReq struct {
	Svc       int
	Call      int // index of the HTTP call within this case (global order)
	Pos       int // position inside the HTTP call's batch
	Query     string
	Variables map[string]interface{}
	OpName    *string
	Multipart bool
	Files     map[string]FilePart // multipart: variable path -> part

	Doc      *ast.QueryDocument
	Invalid  string // validation/parse error ("" = valid)
	VarError string
	Coerced  map[string]interface{}
	Keyword  ast.Operation
	Roots    []string
}

type FilePart struct {
	Name    string
	Content string
}

type HTTPCall struct {
	Svc   int
	Size  int
	Multi bool
}

// Fault describes how a fake service misbehaves for one HTTP call.
type Fault struct {
	Kind string
	Pos  int // sub-request position the fault applies to (element-level faults)
}

// Fakes is the in-memory transport standing for all services of a world.
type Fakes struct {
	// LastMultipart is the body of the last multipart call a service received, as it came over the wire
	LastMultipart []byte
	W             *World
	Cnt           []Counters
	openBodies    int64
	Reqs          []*SubReq
	Calls         []HTTPCall
	Other         []string // requests to non-services, undecodable bodies, ...
	// FaultFor decides whether HTTP call number `call` (0-based, in arrival order) is faulted.
	FaultFor func(call int, svc int, n int) *Fault
	// Values collects every scalar leaf a service put into an answer (taint oracle).
	Values map[string]bool
	Taint  bool
	// Hook, if set, is called at the start of every RoundTrip before any lock is taken
	// (Engine B yields to the scheduler here).
	Hook func(url string)
	// FaultByQuery, if set, faults every HTTP call that carries a sub-request whose query
	// contains the returned marker (independent of arrival order).
	FaultByQuery func(query string) *Fault
	// FaultsApplied counts faults that actually changed an answer in this execution.
	FaultsApplied int

	mu    sync.Mutex
	cache map[string]*ast.QueryDocument
	cerr  map[string]string
}

func NewFakes(w *World) *Fakes {
	f := &Fakes{W: w, cache: map[string]*ast.QueryDocument{}, cerr: map[string]string{}}
	for range w.Services {
		f.Cnt = append(f.Cnt, Counters{})
	}
	return f
}

func (f *Fakes) Reset() {
	f.Reqs, f.Calls, f.Other = nil, nil, nil
	f.FaultsApplied = 0
	atomic.StoreInt64(&f.openBodies, 0)
	for _, c := range f.Cnt {
		for k := range c {
			delete(c, k)
		}
	}
	if f.Taint {
		f.Values = map[string]bool{}
	}
}

func (f *Fakes) svcIndex(url string) int {
	for i, s := range f.W.Services {
		if strings.HasPrefix(url, s.URL) {
			return i
		}
	}
	return -1
}

type wireReq struct {
	Query         string                 `json:"query"`
	Variables     map[string]interface{} `json:"variables"`
	OperationName *string                `json:"operationName"`
}

func httpResp(code int, body []byte) *http.Response {
	return &http.Response{StatusCode: code, Body: io.NopCloser(bytes.NewReader(body)), Header: http.Header{"Content-Type": []string{"application/json"}}}
}

// trackedBody counts the response bodies that were handed out and never closed: for a real
// transport an unclosed body keeps its connection occupied for good.
type trackedBody struct {
	io.ReadCloser
	f      *Fakes
	closed bool
}

func (b *trackedBody) Close() error {
	if !b.closed {
		b.closed = true
		atomic.AddInt64(&b.f.openBodies, -1)
	}
	return b.ReadCloser.Close()
}

// OpenBodies is the number of response bodies handed out since the last Reset and not closed yet.
func (f *Fakes) OpenBodies() int { return int(atomic.LoadInt64(&f.openBodies)) }

func (f *Fakes) RoundTrip(r *http.Request) (*http.Response, error) {
	resp, err := f.roundTrip(r)
	if resp != nil && resp.Body != nil {
		atomic.AddInt64(&f.openBodies, 1)
		resp.Body = &trackedBody{ReadCloser: resp.Body, f: f}
	}
	return resp, err
}

func (f *Fakes) roundTrip(r *http.Request) (*http.Response, error) {
	if f.Hook != nil {
		f.Hook(r.URL.String())
	}
	// a call made with a context that is over fails like http.Transport's
	if err := r.Context().Err(); err != nil {
		return nil, err
	}
	// the gateway queries different services concurrently
	f.mu.Lock()
	defer f.mu.Unlock()
	svc := f.svcIndex(r.URL.String())
	body, _ := io.ReadAll(r.Body)
	if svc < 0 {
		f.Other = append(f.Other, "request to non-service "+r.URL.String())
		return httpResp(404, []byte("no such service")), nil
	}
	call := len(f.Calls)
	ct, params, _ := mime.ParseMediaType(r.Header.Get("Content-Type"))
	var reqs []wireReq
	multi := false
	var files map[string]FilePart
	if ct == "multipart/form-data" {
		multi = true
		f.LastMultipart = append([]byte{}, body...)
		one, fl, err := decodeMultipart(body, params["boundary"])
		if err != nil {
			f.Other = append(f.Other, "undecodable multipart request: "+err.Error())
			return httpResp(400, []byte("bad multipart")), nil
		}
		reqs = []wireReq{*one}
		files = fl
	} else if err := json.Unmarshal(body, &reqs); err != nil {
		f.Other = append(f.Other, "undecodable request body: "+string(body))
		return httpResp(400, []byte("bad json")), nil
	}
	f.Calls = append(f.Calls, HTTPCall{Svc: svc, Size: len(reqs), Multi: multi})
	var fault *Fault
	if f.FaultFor != nil {
		fault = f.FaultFor(call, svc, len(reqs))
	}
	if f.FaultByQuery != nil && fault == nil {
		for _, rq := range reqs {
			if ft := f.FaultByQuery(rq.Query); ft != nil {
				fault = ft
				break
			}
		}
	}
	if fault != nil {
		switch fault.Kind {
		case "transport":
			f.FaultsApplied++
			f.record(svc, call, reqs, multi, files, false)
			return nil, fmt.Errorf("injected transport error")
		case "transport-eof":
			// the connection broke after the service received (and logged) the call
			f.FaultsApplied++
			f.record(svc, call, reqs, multi, files, true)
			return nil, fmt.Errorf("read tcp: %w", io.EOF)
		case "transport-reset":
			f.FaultsApplied++
			f.record(svc, call, reqs, multi, files, true)
			return nil, &net.OpError{Op: "read", Net: "tcp", Err: os.NewSyscallError("read", syscall.ECONNRESET)}
		case "status500":
			f.FaultsApplied++
			f.record(svc, call, reqs, multi, files, false)
			return httpResp(500, []byte(`{"errors":[{"message":"boom"}]}`)), nil
		case "notjson":
			f.FaultsApplied++
			f.record(svc, call, reqs, multi, files, false)
			return httpResp(200, []byte("<html>not json</html>")), nil
		case "object":
			f.FaultsApplied++
			f.record(svc, call, reqs, multi, files, false)
			return httpResp(200, []byte(`{"data":{}}`)), nil
		}
	}
	out := f.record(svc, call, reqs, multi, files, true)
	if fault != nil && fault.Kind == "errors-per-request" {
		// every element of the call fails with a message of its own (names the entity asked for)
		f.FaultsApplied++
		for i := range out {
			key := fmt.Sprintf("request %d", i)
			if i < len(reqs) {
				if id, ok := reqs[i].Variables["id"]; ok {
					key = fmt.Sprint(id)
				}
			}
			out[i] = map[string]interface{}{"data": nil, "errors": []interface{}{map[string]interface{}{"message": "failure for " + key}}}
		}
		b, _ := json.Marshal(out)
		return httpResp(200, b), nil
	}
	if fault != nil && strings.HasPrefix(fault.Kind, "status") && strings.HasSuffix(fault.Kind, "-validbody") {
		// a status outside 2xx (5xx, or a 3xx the client hands back as it is) with a well-formed answer as body
		f.FaultsApplied++
		code := 500
		fmt.Sscanf(fault.Kind, "status%d-validbody", &code)
		b, _ := json.Marshal(out)
		return httpResp(code, b), nil
	}
	if fault != nil {
		var applied bool
		out, applied = applyFault(out, fault)
		if applied {
			f.FaultsApplied++
		}
	}
	if f.Taint {
		collectLeaves(gqlref.Norm(out), f.Values)
	}
	var b []byte
	if multi {
		if len(out) == 1 {
			b, _ = json.Marshal(out[0])
		} else {
			b, _ = json.Marshal(out)
		}
	} else {
		b, _ = json.Marshal(out)
	}
	if fault != nil {
		switch fault.Kind {
		case "trailing-garbage":
			// a complete, well-formed answer followed by bytes that make the body as a whole not JSON
			f.FaultsApplied++
			b = append(b, []byte(` trailing garbage <`)...)
		case "glued":
			// two replies glued together
			f.FaultsApplied++
			b = append(append([]byte{}, b...), b...)
		}
	}
	return httpResp(200, b), nil
}

// record logs the sub-requests of one call and (if eval) evaluates them.
func (f *Fakes) record(svc, call int, reqs []wireReq, multi bool, files map[string]FilePart, eval bool) []interface{} {
	s := f.W.Services[svc]
	out := make([]interface{}, len(reqs))
	for i, rq := range reqs {
		sr := &SubReq{Svc: svc, Call: call, Pos: i, Query: rq.Query, Variables: rq.Variables, OpName: rq.OperationName, Multipart: multi, Files: files}
		f.Reqs = append(f.Reqs, sr)
		key := s.URL + "\x00" + rq.Query
		doc, ok := f.cache[key]
		if !ok {
			d, errs := gqlparser.LoadQuery(s.Schema, rq.Query)
			if errs != nil {
				f.cerr[key] = errs[0].Message
			} else {
				doc = d
			}
			f.cache[key] = doc
		}
		if doc == nil {
			sr.Invalid = f.cerr[key]
			if pd, perr := parser.ParseQuery(&ast.Source{Input: rq.Query}); perr == nil && len(pd.Operations) > 0 {
				sr.Keyword = pd.Operations[0].Operation
				for _, sel := range pd.Operations[0].SelectionSet {
					if fl, ok := sel.(*ast.Field); ok {
						sr.Roots = append(sr.Roots, fl.Name)
					}
				}
			}
			out[i] = map[string]interface{}{"errors": []interface{}{map[string]interface{}{"message": "INVALID SUBREQUEST: " + sr.Invalid}}, "data": nil}
			continue
		}
		sr.Doc = doc
		var op *ast.OperationDefinition
		if rq.OperationName != nil && *rq.OperationName != "" {
			op = doc.Operations.ForName(*rq.OperationName)
		} else if len(doc.Operations) == 1 {
			op = doc.Operations[0]
		}
		if op == nil {
			sr.Invalid = "operation not found / ambiguous"
			out[i] = map[string]interface{}{"errors": []interface{}{map[string]interface{}{"message": "INVALID SUBREQUEST: " + sr.Invalid}}, "data": nil}
			continue
		}
		sr.Keyword = op.Operation
		for _, sel := range op.SelectionSet {
			if fl, ok := sel.(*ast.Field); ok {
				sr.Roots = append(sr.Roots, fl.Name)
			}
		}
		vars := rq.Variables
		if multi && len(files) > 0 {
			vars = injectFiles(vars, files)
		}
		cv, verr := validator.VariableValues(s.Schema, op, vars)
		if verr != nil {
			sr.VarError = verr.Error()
			out[i] = map[string]interface{}{"errors": []interface{}{map[string]interface{}{"message": "VARIABLE ERROR: " + sr.VarError}}, "data": nil}
			continue
		}
		sr.Coerced = cv
		if !eval {
			continue
		}
		root := "Query"
		if op.Operation == ast.Mutation {
			root = "Mutation"
		} else if op.Operation == ast.Subscription {
			root = "Subscription"
		}
		e := &gqlref.Eval{Schema: s.Schema, Res: f.W.ForService(svc, f.Cnt[svc]), Vars: cv}
		data := e.Exec(root, gqlref.Obj{"__t": root}, op.SelectionSet)
		out[i] = map[string]interface{}{"data": data}
	}
	return out
}

func collectLeaves(v interface{}, into map[string]bool) {
	switch x := v.(type) {
	case map[string]interface{}:
		for _, vv := range x {
			collectLeaves(vv, into)
		}
	case []interface{}:
		for _, vv := range x {
			collectLeaves(vv, into)
		}
	case nil:
	default:
		b, _ := json.Marshal(x)
		into[string(b)] = true
	}
}

func decodeMultipart(body []byte, boundary string) (*wireReq, map[string]FilePart, error) {
	mr := multipart.NewReader(bytes.NewReader(body), boundary)
	form, err := mr.ReadForm(64 << 20)
	if err != nil {
		return nil, nil, err
	}
	defer form.RemoveAll() // parts above the memory budget are spooled to files
	ops := ""
	if v := form.Value["operations"]; len(v) > 0 {
		ops = v[0]
	}
	var one wireReq
	if err := json.Unmarshal([]byte(ops), &one); err != nil {
		return nil, nil, fmt.Errorf("operations: %v", err)
	}
	var m map[string][]string
	if v := form.Value["map"]; len(v) > 0 {
		if err := json.Unmarshal([]byte(v[0]), &m); err != nil {
			return nil, nil, fmt.Errorf("map: %v", err)
		}
	}
	files := map[string]FilePart{}
	for key, paths := range m {
		fh := form.File[key]
		if len(fh) == 0 {
			return nil, nil, fmt.Errorf("map names part %q which is missing", key)
		}
		fl, err := fh[0].Open()
		if err != nil {
			return nil, nil, err
		}
		content, _ := io.ReadAll(fl)
		fl.Close()
		for _, p := range paths {
			files[p] = FilePart{Name: fh[0].Filename, Content: string(content)}
		}
	}
	return &one, files, nil
}

// injectFiles puts a printable stand-in for each file at its variable path.
func injectFiles(vars map[string]interface{}, files map[string]FilePart) map[string]interface{} {
	b, _ := json.Marshal(vars)
	var cp map[string]interface{}
	json.Unmarshal(b, &cp)
	if cp == nil {
		cp = map[string]interface{}{}
	}
	for path, fp := range files {
		parts := strings.Split(path, ".")
		if len(parts) < 2 || parts[0] != "variables" {
			continue
		}
		setPath(cp, parts[1:], "file:"+fp.Name+":"+fp.Content)
	}
	return cp
}

func setPath(cur interface{}, parts []string, val interface{}) {
	for i, p := range parts {
		last := i == len(parts)-1
		switch c := cur.(type) {
		case map[string]interface{}:
			if last {
				c[p] = val
				return
			}
			cur = c[p]
		case []interface{}:
			var idx int
			fmt.Sscan(p, &idx)
			if idx < 0 || idx >= len(c) {
				return
			}
			if last {
				c[idx] = val
				return
			}
			cur = c[idx]
		default:
			return
		}
	}
}

// applyFault rewrites a well-formed answer array according to an element-level fault.
func applyFault(out []interface{}, ft *Fault) ([]interface{}, bool) {
	applied := false
	pos := ft.Pos
	if pos >= len(out) {
		pos = len(out) - 1
	}
	el := func() map[string]interface{} {
		if pos < 0 {
			return nil
		}
		m, _ := out[pos].(map[string]interface{})
		return m
	}
	switch ft.Kind {
	case "short":
		if len(out) > 0 {
			return out[:len(out)-1], true
		}
	case "long":
		return append(out, map[string]interface{}{"data": map[string]interface{}{}}), true
	case "empty":
		return []interface{}{}, len(out) > 0
	case "errors1":
		if m := el(); m != nil {
			out[pos] = map[string]interface{}{"data": nil, "errors": []interface{}{errPayload(1)}}
			applied = true
		}
	case "errors2":
		if m := el(); m != nil {
			out[pos] = map[string]interface{}{"data": m["data"], "errors": []interface{}{errPayload(1), errPayload(2)}}
			applied = true
		}
	case "errors2same":
		if m := el(); m != nil {
			e1, e2 := errPayload(1), errPayload(2)
			e2["message"] = e1["message"] // same message, different path / extensions
			out[pos] = map[string]interface{}{"data": nil, "errors": []interface{}{e1, e2}}
			applied = true
		}
	case "errors-nocode", "errors-noext":
		if m := el(); m != nil {
			out[pos] = map[string]interface{}{"data": nil, "errors": []interface{}{ErrVariant(ft.Kind)}}
			applied = true
		}
	case "datanull":
		if m := el(); m != nil {
			out[pos] = map[string]interface{}{"data": nil}
			applied = true
		}
	case "nodata":
		if m := el(); m != nil {
			out[pos] = map[string]interface{}{}
			applied = true
		}
	case "errors-empty-datanull":
		// data missing and an errors key that carries nothing
		if m := el(); m != nil {
			out[pos] = map[string]interface{}{"data": nil, "errors": []interface{}{}}
			applied = true
		}
	case "errors-null1", "errors-null-nodata", "errors-null2-data":
		// an errors list whose entries are all null (a failure signal: the list is not empty)
		if m := el(); m != nil {
			switch ft.Kind {
			case "errors-null1":
				out[pos] = map[string]interface{}{"data": nil, "errors": []interface{}{nil}}
			case "errors-null-nodata":
				out[pos] = map[string]interface{}{"errors": []interface{}{nil}}
			default:
				out[pos] = map[string]interface{}{"data": m["data"], "errors": []interface{}{nil, nil}}
			}
			applied = true
		}
	case "errors-empty-ok":
		// a healthy answer that spells out its empty errors list (an answer that already carries errors is left alone)
		if m := el(); m != nil {
			if e, has := m["errors"]; !has || e == nil {
				out[pos] = map[string]interface{}{"data": m["data"], "errors": []interface{}{}}
				applied = true
			}
		}
	case "entry-scalar", "entry-null", "obj-scalar", "list-object", "no-id", "foreign-id", "field-null", "obj-list", "obj-list2", "obj-list3-null", "obj-empty-list", "list-null":
		if m := el(); m != nil {
			cp := gqlref.Norm(m["data"])
			if shapeFault(cp, ft.Kind) {
				out[pos] = map[string]interface{}{"data": cp}
				applied = true
			}
		}
	case "nonode", "nodestring", "nodelist", "nodenumber":
		if m := el(); m != nil {
			if d, ok := m["data"].(map[string]interface{}); ok {
				if _, has := d["node"]; has {
					nd := map[string]interface{}{}
					for k, v := range d {
						nd[k] = v
					}
					switch ft.Kind {
					case "nonode":
						delete(nd, "node")
					case "nodestring":
						nd["node"] = "oops"
					case "nodelist":
						nd["node"] = []interface{}{"oops"}
					case "nodenumber":
						nd["node"] = 42
					}
					out[pos] = map[string]interface{}{"data": nd}
					applied = true
				}
			}
		}
	}
	return out, applied
}

func errPayload(i int) map[string]interface{} {
	return map[string]interface{}{
		"message":    fmt.Sprintf("downstream failure #%d ünï", i),
		"extensions": map[string]interface{}{"code": fmt.Sprintf("E%d", i), "nested": map[string]interface{}{"k": []interface{}{1.0, "x"}}},
		"path":       []interface{}{"node", float64(i), "f"},
		"locations":  []interface{}{map[string]interface{}{"line": 1.0, "column": float64(i + 1)}},
	}
}

// ErrVariant: downstream errors in the spellings services use - extensions without a `code`
// (graphql-java style), no extensions / path / locations at all.
func ErrVariant(kind string) map[string]interface{} {
	switch kind {
	case "errors-nocode":
		return map[string]interface{}{
			"message":    "Exception while fetching data (/f)",
			"extensions": map[string]interface{}{"classification": "DataFetchingException", "retryable": true},
			"path":       []interface{}{"node", "f"},
		}
	case "errors-noext":
		return map[string]interface{}{"message": "plain failure"}
	}
	return errPayload(1)
}

// shapeFault rewrites the first place (depth-first, sorted keys) of a data tree where the
// given schema-contradicting shape can be produced.  Returns false if there is none.
func shapeFault(v interface{}, kind string) bool {
	switch x := v.(type) {
	case map[string]interface{}:
		keys := make([]string, 0, len(x))
		for k := range x {
			keys = append(keys, k)
		}
		sortStrs(keys)
		if kind == "no-id" || kind == "foreign-id" {
			if _, ok := x["id"]; ok && len(x) > 1 {
				if kind == "no-id" {
					delete(x, "id")
				} else {
					x["id"] = "ZZ_9"
				}
				return true
			}
		}
		for _, k := range keys {
			switch c := x[k].(type) {
			case []interface{}:
				if kind == "list-object" {
					x[k] = map[string]interface{}{"unexpected": "object"}
					return true
				}
				if kind == "list-null" {
					x[k] = nil
					return true
				}
				if len(c) > 0 {
					if _, isObj := c[0].(map[string]interface{}); isObj {
						if kind == "entry-scalar" {
							c[0] = "scalar-entry"
							return true
						}
						if kind == "entry-null" {
							c[0] = nil
							return true
						}
					}
				}
			case map[string]interface{}:
				if kind == "obj-scalar" && k != "node" {
					x[k] = "scalar-instead-of-object"
					return true
				}
				if kind == "obj-list" && k != "node" {
					x[k] = []interface{}{c}
					return true
				}
				if kind == "obj-list2" && k != "node" {
					// a list of two (copies of the) objects where the schema promises one object
					x[k] = []interface{}{c, gqlref.Norm(c)}
					return true
				}
				if kind == "obj-list3-null" && k != "node" {
					x[k] = []interface{}{c, nil, gqlref.Norm(c)}
					return true
				}
				if kind == "obj-empty-list" && k != "node" {
					x[k] = []interface{}{}
					return true
				}
			case string, float64, bool:
				if kind == "field-null" && k != "id" && k != "__typename" {
					x[k] = nil
					return true
				}
			}
		}
		for _, k := range keys {
			if shapeFault(x[k], kind) {
				return true
			}
		}
	case []interface{}:
		for _, e := range x {
			if shapeFault(e, kind) {
				return true
			}
		}
	}
	return false
}

func sortStrs(s []string) { sort.Strings(s) }
