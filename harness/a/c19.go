package a

import (
	"encoding/json"
	"fmt"
	"net/http"
	"net/http/httptest"
	"sort"
	"strings"
	"time"

	"verif/gqlref"

	"github.com/vektah/gqlparser/v2/ast"
)

// C19: file uploads arrive at the owning service unchanged.

type upOp struct {
	Q     string
	Vars  map[string]interface{}
	Slots []string // variable paths (relative, "variables.…") that may take a file
}

type upFile struct {
	Name    string
	Content string
	Paths   []string // full client paths (with batch index in batch mode)
}

type upLayout struct {
	Ops   []upOp
	Files []upFile
	Desc  string
}

func upOps(second bool) []upOp {
	ops := []upOp{
		{Q: "mutation ($f: Upload) { upload(f: $f) }", Vars: map[string]interface{}{"f": nil}, Slots: []string{"variables.f"}},
		{Q: "mutation ($o: UpIn) { uploadIn(in: $o) }", Vars: map[string]interface{}{"o": map[string]interface{}{"f": nil, "fs": []interface{}{nil, nil}, "s": "x"}},
			Slots: []string{"variables.o.f", "variables.o.fs.0", "variables.o.fs.1"}},
		{Q: "mutation ($l: [Upload]) { uploadMany(fs: $l) }", Vars: map[string]interface{}{"l": []interface{}{nil, nil}}, Slots: []string{"variables.l.0", "variables.l.1"}},
		{Q: "mutation ($f: Upload) { upload(f: $f) b: upload(f: $f) }", Vars: map[string]interface{}{"f": nil}, Slots: []string{"variables.f"}},
		{Q: "mutation ($f: Upload) { upload(f: $f) mkN1 { phone } }", Vars: map[string]interface{}{"f": nil}, Slots: []string{"variables.f"}},
		{Q: "mutation ($f: Upload, $l: [Upload]) { upload(f: $f) uploadMany(fs: $l) }", Vars: map[string]interface{}{"f": nil, "l": []interface{}{nil, nil}},
			Slots: []string{"variables.f", "variables.l.0", "variables.l.1"}},
		{Q: "mutation ($f: Upload) { upload(f: $f) incr(by: 3) }", Vars: map[string]interface{}{"f": nil}, Slots: []string{"variables.f"}},
	}
	if second {
		ops = append(ops,
			upOp{Q: "mutation ($f: Upload) { upload(f: $f) upload1(f: $f) }", Vars: map[string]interface{}{"f": nil}, Slots: []string{"variables.f"}},
			upOp{Q: "mutation ($f: Upload) { upload(f: $f) plain1(s: \"f\") }", Vars: map[string]interface{}{"f": nil}, Slots: []string{"variables.f"}},
			upOp{Q: "mutation ($f: Upload, $s: String) { upload(f: $f) plain1(s: $s) }", Vars: map[string]interface{}{"f": nil, "s": "str"}, Slots: []string{"variables.f"}},
			upOp{Q: "mutation ($f: Upload) { upload1(f: $f) }", Vars: map[string]interface{}{"f": nil}, Slots: []string{"variables.f"}},
			upOp{Q: "mutation ($o: UpIn) { uploadIn(in: $o) uploadIn1(in: $o) }", Vars: map[string]interface{}{"o": map[string]interface{}{"f": nil, "fs": []interface{}{nil, nil}, "s": "x"}},
				Slots: []string{"variables.o.f", "variables.o.fs.1"}},
			upOp{Q: "mutation ($f: Upload, $g: Upload) { upload(f: $f) upload1(f: $g) }", Vars: map[string]interface{}{"f": nil, "g": nil}, Slots: []string{"variables.f", "variables.g"}},
		)
	}
	return ops
}

func upContents(tier string) []string {
	c := []string{"", "a", "line1\r\n--XBOUNDARY-lookalike\r\nContent-Disposition: form-data; name=\"map\"\r\n\r\nline3\x00\xff\r\n--"}
	if tier == "thorough" {
		c = append(c, strings.Repeat("0123456789abcdef", 70*64))
	}
	return c
}

func cloneVars(v map[string]interface{}) map[string]interface{} {
	b, _ := json.Marshal(v)
	var o map[string]interface{}
	json.Unmarshal(b, &o)
	return o
}

func upLayouts(tier string, second bool) []upLayout {
	var out []upLayout
	ops := upOps(second)
	contents := upContents(tier)
	for oi, op := range ops {
		for _, content := range contents {
			// one file at each single slot
			for _, s := range op.Slots {
				out = append(out, upLayout{Ops: []upOp{op}, Files: []upFile{{Name: "a.txt", Content: content, Paths: []string{s}}}, Desc: fmt.Sprintf("op%d 1 file at %s", oi, s)})
			}
			if content == "a" {
				for _, name := range []string{"we\"ird.txt", "b\\(1).txt", "sp ace;semi=colon.txt", "ünï.bin"} {
					out = append(out, upLayout{Ops: []upOp{op}, Files: []upFile{{Name: name, Content: content, Paths: []string{op.Slots[0]}}}, Desc: fmt.Sprintf("op%d file named %q", oi, name)})
				}
			}
			// one file used at two slots
			for i := 0; i < len(op.Slots); i++ {
				for j := i + 1; j < len(op.Slots); j++ {
					out = append(out, upLayout{Ops: []upOp{op}, Files: []upFile{{Name: "a.txt", Content: content, Paths: []string{op.Slots[i], op.Slots[j]}}},
						Desc: fmt.Sprintf("op%d 1 file at %s and %s", oi, op.Slots[i], op.Slots[j])})
					// two files at two slots
					out = append(out, upLayout{Ops: []upOp{op}, Files: []upFile{{Name: "a.txt", Content: content, Paths: []string{op.Slots[i]}}, {Name: "b.bin", Content: "B" + content, Paths: []string{op.Slots[j]}}},
						Desc: fmt.Sprintf("op%d 2 files at %s and %s", oi, op.Slots[i], op.Slots[j])})
					// two different files that happen to carry the same name (image.jpg, blob)
					if content == "a" {
						out = append(out, upLayout{Ops: []upOp{op}, Files: []upFile{{Name: "image.jpg", Content: "FRONT", Paths: []string{op.Slots[i]}}, {Name: "image.jpg", Content: "BACK SIDE", Paths: []string{op.Slots[j]}}},
							Desc: fmt.Sprintf("op%d 2 files of one name at %s and %s", oi, op.Slots[i], op.Slots[j])})
					}
				}
			}
		}
	}
	// files beyond the in-memory budget of the multipart parser (32 MiB per request): parts are
	// then spooled to disk by net/http and read back when the sub-request is built
	big := func(n int, tag string) string {
		unit := tag + "0123456789abcdef"
		return strings.Repeat(unit, n/len(unit)+1)[:n]
	}
	out = append(out, upLayout{Ops: []upOp{ops[0]}, Files: []upFile{{Name: "big.bin", Content: big(33<<20, "A"), Paths: []string{ops[0].Slots[0]}}}, Desc: "op0 1 file of 33 MiB"})
	out = append(out, upLayout{Ops: []upOp{ops[2]}, Files: []upFile{{Name: "most.bin", Content: big(31<<20, "B"), Paths: []string{ops[2].Slots[0]}}, {Name: "rest.bin", Content: big(2<<20, "C"), Paths: []string{ops[2].Slots[1]}}},
		Desc: "op2 files of 31 MiB and 2 MiB"})
	// batches of two
	for i, a := range ops {
		for j, b := range ops {
			if tier == "quick" && (i > 2 || j > 2) {
				continue
			}
			content := contents[1]
			out = append(out, upLayout{Ops: []upOp{a, b}, Files: []upFile{{Name: "a.txt", Content: content, Paths: []string{"0." + a.Slots[0]}}}, Desc: fmt.Sprintf("batch op%d,op%d file in first", i, j)})
			out = append(out, upLayout{Ops: []upOp{a, b}, Files: []upFile{{Name: "a.txt", Content: content, Paths: []string{"1." + b.Slots[0]}}}, Desc: fmt.Sprintf("batch op%d,op%d file in second", i, j)})
			out = append(out, upLayout{Ops: []upOp{a, b}, Files: []upFile{{Name: "a.txt", Content: content, Paths: []string{"0." + a.Slots[0]}}, {Name: "b.bin", Content: "BB", Paths: []string{"1." + b.Slots[len(b.Slots)-1]}}},
				Desc: fmt.Sprintf("batch op%d,op%d one file each", i, j)})
			out = append(out, upLayout{Ops: []upOp{a, b}, Files: []upFile{{Name: "a.txt", Content: content, Paths: []string{"0." + a.Slots[0], "1." + b.Slots[0]}}}, Desc: fmt.Sprintf("batch op%d,op%d same file in both", i, j)})
		}
	}
	return out
}

func (l upLayout) body() (string, string) {
	var ops interface{}
	var list []interface{}
	for _, o := range l.Ops {
		list = append(list, map[string]interface{}{"query": o.Q, "variables": cloneVars(o.Vars)})
	}
	if len(l.Ops) == 1 {
		ops = list[0]
	} else {
		ops = list
	}
	ob, _ := json.Marshal(ops)
	m := map[string][]string{}
	var files []mpFile
	for i, f := range l.Files {
		k := fmt.Sprint(i)
		m[k] = f.Paths
		files = append(files, mpFile{Key: k, Name: f.Name, Content: f.Content})
	}
	mb, _ := json.Marshal(m)
	ms := string(mb)
	return buildMultipart(string(ob), &ms, files)
}

// expected variables of operation i with file stand-ins in place
func (l upLayout) refVars(i int) map[string]interface{} {
	v := cloneVars(l.Ops[i].Vars)
	for _, f := range l.Files {
		for _, p := range f.Paths {
			parts := strings.Split(p, ".")
			if len(l.Ops) > 1 {
				if parts[0] != fmt.Sprint(i) {
					continue
				}
				parts = parts[1:]
			}
			setPath(v, parts[1:], "file:"+f.Name+":"+f.Content)
		}
	}
	return v
}

func c19Jobs(tier string) []string {
	return []string{"W0+upload-roots", "W0+upload-roots+upload-second-service", "Wmin+upload-roots+upload-second-service", "W0+upload-roots+upload-second-service|m1"}
}

func init() {
	Props["C19"] = &Prop{
		ID:    "C19",
		Level: "exploration",
		Rule: "case = multipart layout: operation count {1, batch of 2} x operation shape (file variable at top level / inside an input object / inside a list / list inside an object; one or two consuming fields; consumers on one or two services; " +
			"non-file sibling on the other service; child lookups) x file map (1 file at 1 slot, 1 file at 2 slots, 2 files) x contents (empty, 1 byte, CRLF + boundary look-alike + NUL/0xFF bytes; thorough: 70 kB) plus two layouts beyond the 32 MiB in-memory budget of the multipart parser (one file of 33 MiB; 31 MiB + 2 MiB); " +
			"oracle: every service sub-request that declares the variable is multipart and maps the same variable path to the same file name and bytes, sub-requests that do not use the variable carry no file, and data equals the reference; non-trivial = a file reached a service",
		Assumptions: []string{"the in-memory service decodes multipart with mime/multipart (independent of the gateway's encoder only in direction)", "file stand-in in the reference is the string file:<name>:<bytes>"},
		Jobs:        c19Jobs,
		Budget: func(tier string) time.Duration {
			if tier == "quick" {
				return 45 * time.Second
			}
			return 5 * time.Minute
		},
		RunJob: func(tier, job string, from int, em *Emitter) {
			parts := strings.Split(job, "|")
			w0 := strings.Split(parts[0], "+")
			wd := WorldDesc{Base: w0[0], Atoms: w0[1:]}
			cfg := DefaultConfig
			if len(parts) > 1 && parts[1] == "m1" {
				cfg.BatchM = 1
			}
			w, err := wd.Build()
			if err != nil {
				em.GenError(err.Error())
				return
			}
			f, err := NewFed(w, cfg)
			if err != nil {
				em.GenError(err.Error())
				return
			}
			second := strings.Contains(job, "upload-second-service")
			layouts := upLayouts(tier, second)
			for i := from; i < len(layouts); i++ {
				l := layouts[i]
				atoms := append([]string{}, w.Atoms...)
				atoms = append(atoms, cfg.Atoms()...)
				nslots := 0
				for _, fl := range l.Files {
					nslots += len(fl.Paths)
					if len(fl.Paths) > 1 {
						atoms = append(atoms, "one-file-two-paths")
					}
					for _, p := range fl.Paths {
						pp := strings.Split(p, ".")
						if len(l.Ops) > 1 {
							pp = pp[1:]
						}
						if len(pp) > 2 {
							atoms = append(atoms, "file-nested")
						}
					}
				}
				if len(l.Files) > 1 {
					atoms = append(atoms, "two-files")
				}
				if len(l.Ops) > 1 {
					atoms = append(atoms, "client-batch")
				}
				for _, o := range l.Ops {
					if strings.Contains(o.Q, "b: upload") || strings.Contains(o.Q, "upload1(f: $f)") && strings.Contains(o.Q, "upload(f: $f)") || strings.Contains(o.Q, "uploadIn1(in: $o)") && strings.Contains(o.Q, "uploadIn(in: $o)") {
						atoms = append(atoms, "variable-consumed-twice")
					}
					if strings.Count(o.Q, "(") > 2 {
						atoms = append(atoms, "several-root-fields")
					}
				}
				atoms = uniqSorted(atoms)
				usable := true
				for _, o := range l.Ops {
					if d, gerr := f.load(o.Q); d == nil {
						em.GenError(gerr + " :: " + o.Q)
						usable = false
					}
				}
				if !usable {
					continue // an operation of this layout does not exist in this world
				}
				body, ct := l.body()
				rp := map[string]interface{}{"world": wd.Name(), "cfg": cfg.String(), "layout": l.Desc, "content_type": ct, "body": body}
				if len(body) > 1<<20 {
					rp["body"] = fmt.Sprintf("<%d bytes, see layout>", len(body))
					rp["content_type"] = "multipart/form-data"
				}
				if !em.Begin(i, atoms, rp) {
					if em.Capped() {
						return
					}
					continue
				}
				f.Fakes.Reset()
				r, _ := http.NewRequest("POST", "/", strings.NewReader(body))
				r.Header.Set("Content-Type", ct)
				rr := httptest.NewRecorder()
				f.GW.Handler(rr, r)
				if r.MultipartForm != nil {
					r.MultipartForm.RemoveAll() // what net/http's server does after the handler has returned
				}
				sigs, reached, genErrs := JudgeUpload(f, l, rr.Code, rr.Body.Bytes())
				for _, g := range genErrs {
					em.GenError(g)
				}
				if len(sigs) > 0 {
					em.Fail(atoms, sigs, rp)
				}
				if len(sigs) == 0 && len(l.Ops) == 1 && len(l.Files) == 1 && l.Files[0].Content == "a" && len(f.Fakes.LastMultipart) > 0 {
					// the same layout once more, the file now being the very request the gateway has just sent to a service
					// (part headers, delimiter lines and all): a file is bytes, whatever they look like
					l2 := l
					l2.Files = []upFile{{Name: "captured.http", Content: string(f.Fakes.LastMultipart), Paths: l.Files[0].Paths}}
					l2.Desc = l.Desc + ", the file is the multipart request the gateway sent for the run before"
					body2, ct2 := l2.body()
					f.Fakes.Reset()
					r2, _ := http.NewRequest("POST", "/", strings.NewReader(body2))
					r2.Header.Set("Content-Type", ct2)
					rr2 := httptest.NewRecorder()
					f.GW.Handler(rr2, r2)
					if r2.MultipartForm != nil {
						r2.MultipartForm.RemoveAll()
					}
					sigs2, _, _ := JudgeUpload(f, l2, rr2.Code, rr2.Body.Bytes())
					if len(sigs2) > 0 {
						em.Fail(append(append([]string{}, atoms...), "file-is-a-captured-request"), sigs2, map[string]interface{}{"world": wd.Name(), "cfg": cfg.String(), "layout": l2.Desc, "content_type": ct2, "body": body2})
					}
					em.Extra("captured-request-runs", 1)
				}
				if i%97 == 0 {
					em.Sample(map[string]interface{}{"world": wd.Name(), "layout": l.Desc, "ops": len(l.Ops), "files": len(l.Files)})
				}
				em.Done(reached)
			}
		},
	}
}

// UpLayout / UploadLayouts / JudgeUpload: the layout alphabet and the oracle of C19, shared
// with the schedule-exploring part of the check (harness/b/c19.go).
type UpLayout = upLayout

func UploadLayouts(tier string, second bool) []UpLayout { return upLayouts(tier, second) }
func (l upLayout) Body() (string, string)               { return l.body() }

// JudgeUpload compares what the services received (f.Fakes) and the client's answer with
// the layout; reached = some file arrived intact at a service that uses it.
func JudgeUpload(f *Fed, l upLayout, status int, respBody []byte) (sigs []string, reached bool, genErrs []string) {
	set := map[string]bool{}
	if status != 200 {
		set[fmt.Sprintf("status %d for a well-formed multipart request", status)] = true
	}
	var resp interface{}
	json.Unmarshal(respBody, &resp)
	var results []interface{}
	if len(l.Ops) == 1 {
		results = []interface{}{resp}
	} else {
		results, _ = resp.([]interface{})
	}
	// data equality per operation
	for oi, o := range l.Ops {
		doc, gerr := f.load(o.Q)
		if doc == nil {
			genErrs = append(genErrs, gerr)
			continue
		}
		ref, err := gqlref.Execute(f.Merged, f.W.Monolith(f.Merged, Counters{}), doc.Operations[0], l.refVars(oi), nil)
		if err != nil {
			genErrs = append(genErrs, err.Error())
			continue
		}
		if oi >= len(results) {
			set["missing result for an operation of the batch"] = true
			continue
		}
		rm, _ := results[oi].(map[string]interface{})
		if rm == nil {
			set["result is not an object"] = true
			continue
		}
		if e, ok := rm["errors"].([]interface{}); ok && len(e) > 0 {
			msg := ""
			if m, ok := e[0].(map[string]interface{}); ok {
				msg = fmt.Sprint(m["message"])
			}
			set["errors: "+Template(msg)] = true
			continue
		}
		if len(l.Ops) == 1 { // in a client batch the services' mutation counters are shared; C08 judges batch answers
			for _, d := range DiffSigs(gqlref.Norm(ref), rm["data"]) {
				set[d] = true
			}
		}
	}
	// what the services received
	reached = false
	type cand struct {
		sr       *SubReq
		declared map[string]bool
	}
	var cands []cand
	for _, sr := range f.Fakes.Reqs {
		if sr.Doc == nil {
			set["subrequest-invalid: "+Template(sr.Invalid)] = true
			continue
		}
		declared := map[string]bool{}
		for _, op := range sr.Doc.Operations {
			for _, vd := range op.VariableDefinitions {
				declared[vd.Variable] = true
			}
		}
		cands = append(cands, cand{sr, declared})
		if sr.Multipart {
			for path, got := range sr.Files {
				pp := strings.Split(path, ".")
				if len(pp) < 2 || !declared[pp[1]] {
					set["service received a file for a variable its sub-request does not use"] = true
				}
				known := false
				for _, fl := range l.Files {
					if fl.Name == got.Name && fl.Content == got.Content {
						known = true
					}
				}
				if !known {
					// attributed below to the precise kind of corruption
					_ = known
				}
			}
		}
	}
	for oi := range l.Ops {
		for _, fl := range l.Files {
			for _, p := range fl.Paths {
				pp := strings.Split(p, ".")
				if len(l.Ops) > 1 {
					if pp[0] != fmt.Sprint(oi) {
						continue
					}
					pp = pp[1:]
				}
				rel := strings.Join(pp, ".")
				// per service: some sub-request that uses the variable must carry the file intact
				bySvc := map[int]string{}
				for _, c := range cands {
					if !c.declared[pp[1]] || c.sr.Keyword != ast.Mutation || !subReqBelongs(c.sr, l.Ops[oi]) {
						continue
					}
					verdict := "service that uses the file variable did not receive the file at its path"
					if got, ok := c.sr.Files[rel]; ok && c.sr.Multipart {
						switch {
						case got.Name == fl.Name && got.Content == fl.Content:
							verdict = ""
						case got.Content != fl.Content:
							verdict = "file bytes changed on the way"
						default:
							verdict = "file name changed on the way"
						}
					}
					if prev, seen := bySvc[c.sr.Svc]; !seen || (prev != "" && verdict == "") {
						bySvc[c.sr.Svc] = verdict
					}
				}
				if len(l.Ops) > 1 {
					// in a client batch sub-requests cannot be attributed to one operation
					// unambiguously (same root fields, same variable names): the file must
					// arrive intact in at least one of the candidates
					any, worst := false, ""
					for _, v := range bySvc {
						if v == "" {
							any = true
						} else {
							worst = v
						}
					}
					if any {
						reached = true
					} else if worst != "" {
						set[worst] = true
					}
					continue
				}
				for _, v := range bySvc {
					if v == "" {
						reached = true
					} else {
						set[v] = true
					}
				}
			}
		}
	}
	for _, o := range f.Fakes.Other {
		set["service received an undecodable request: "+Template(o)] = true
	}
	for k := range set {
		sigs = append(sigs, k)
	}
	sort.Strings(sigs)
	return sigs, reached, genErrs
}

// subReqBelongs: in batch mode attribute a sub-request to a client operation by its root fields.
func subReqBelongs(sr *SubReq, o upOp) bool {
	for _, r := range sr.Roots {
		if !strings.Contains(o.Q, r+"(") && !strings.Contains(o.Q, r+" ") {
			return false
		}
	}
	return true
}

func uniqSorted(s []string) []string {
	sort.Strings(s)
	return uniq(s)
}
