package a

import (
	"bufio"
	"encoding/json"
	"fmt"
	"io"
	"os"
	"strings"
	"time"

	"verif/findings"
	"verif/gqlref"
)

// Replay re-runs the single recorded case of a replay file in this process, without the
// worker pool (a crash is then visible as this process' own panic).
func Replay(p *Prop, tier, path string) int {
	b, err := os.ReadFile(path)
	if err != nil {
		fmt.Println("ERROR harness:", err)
		return 2
	}
	var rf struct {
		Signature string      `json:"signature"`
		Job       string      `json:"job"`
		Case      interface{} `json:"case"`
	}
	if err := json.Unmarshal(b, &rf); err != nil {
		fmt.Println("ERROR harness:", err)
		return 2
	}
	target, _ := json.Marshal(rf.Case)
	fs, _ := findings.Load()
	em := &Emitter{w: bufio.NewWriter(io.Discard), job: rf.Job, seen: map[string]bool{}, deadline: time.Now().Add(time.Hour), fs: fs, prop: p.ID,
		saturated: map[string]bool{}, replayTarget: string(target)}
	p.RunJob(tier, rf.Job, 0, em)
	if !em.replayHit {
		fmt.Println("ERROR harness: the recorded case was not found in job", rf.Job)
		return 2
	}
	fmt.Printf("job: %s\ncase: %s\nrecorded signature: %s\nreplayed signatures: %q\n", rf.Job, target, rf.Signature, em.replaySigs)
	if len(em.replaySigs) > 0 {
		fmt.Printf("VIOLATION property=%s replay=%s\n", p.ID, path)
		return 1
	}
	fmt.Println("the case passes")
	return 0
}

// Probe runs one hand-written operation on a world (development aid: `acheck -probe
// '<world>' '<query>' ['<variables json>']`) and prints reference, answer and sub-requests.
func Probe(world, q, vars string, cfg Config) int {
	parts := strings.Split(world, "+")
	w, err := WorldDesc{Base: parts[0], Atoms: parts[1:]}.Build()
	if err != nil {
		fmt.Println("world:", err)
		return 2
	}
	f, err := NewFed(w, cfg)
	if err != nil {
		fmt.Println("gateway:", err)
		return 2
	}
	c := Case{Q: q}
	if vars != "" {
		json.Unmarshal([]byte(vars), &c.Vars)
	}
	o := f.Run(c)
	if !o.Valid {
		fmt.Println("invalid operation:", o.GenError)
		return 2
	}
	rb, _ := json.Marshal(o.RefData)
	fmt.Printf("reference: %s (err %q)\nanswer %d:  %s\n", rb, o.RefErr, o.Status, o.Body)
	for _, r := range o.Reqs {
		vb, _ := json.Marshal(r.Variables)
		fmt.Printf("  -> s%d %s %s %s\n", r.Svc, strings.Join(strings.Fields(r.Query), " "), vb, r.Invalid)
	}
	if m, ok := o.Resp["data"]; ok {
		pr, _ := gqlref.Prune(o.RefData)
		pm, _ := gqlref.Prune(m)
		fmt.Println("diff:", DiffSigs(pr, pm))
	}
	return 0
}
