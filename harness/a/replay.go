package a

import (
	"bufio"
	"encoding/json"
	"fmt"
	"io"
	"os"
	"time"

	"verif/findings"
)

// Replay re-runs the single recorded case of a replay file in this process, without the
// worker pool (a crash is then visible as this process' own panic).
func Replay(p *Prop, tier, path string) int {
	b, err := os.ReadFile(path)
	if err != nil {
		fmt.Println("ERROR harness:", err)
		return 2
	}
	var rf struct {
		Signature string      `json:"signature"`
		Job       string      `json:"job"`
		Case      interface{} `json:"case"`
	}
	if err := json.Unmarshal(b, &rf); err != nil {
		fmt.Println("ERROR harness:", err)
		return 2
	}
	target, _ := json.Marshal(rf.Case)
	fs, _ := findings.Load()
	em := &Emitter{w: bufio.NewWriter(io.Discard), job: rf.Job, seen: map[string]bool{}, deadline: time.Now().Add(time.Hour), fs: fs, prop: p.ID,
		saturated: map[string]bool{}, replayTarget: string(target)}
	p.RunJob(tier, rf.Job, 0, em)
	if !em.replayHit {
		fmt.Println("ERROR harness: the recorded case was not found in job", rf.Job)
		return 2
	}
	fmt.Printf("job: %s\ncase: %s\nrecorded signature: %s\nreplayed signatures: %q\n", rf.Job, target, rf.Signature, em.replaySigs)
	if len(em.replaySigs) > 0 {
		fmt.Printf("VIOLATION property=%s replay=%s\n", p.ID, path)
		return 1
	}
	fmt.Println("the case passes")
	return 0
}
