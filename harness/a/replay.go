package a

import (
	"encoding/json"
	"fmt"
	"os"
)

// Replay re-runs the single recorded case of a replay file in this process (a crash is
// then visible as this process' own panic).
func Replay(p *Prop, tier, path string) int {
	b, err := os.ReadFile(path)
	if err != nil {
		fmt.Println("ERROR harness:", err)
		return 2
	}
	var rf struct {
		Signature string          `json:"signature"`
		Job       string          `json:"job"`
		Case      json.RawMessage `json:"case"`
	}
	if err := json.Unmarshal(b, &rf); err != nil {
		fmt.Println("ERROR harness:", err)
		return 2
	}
	if p.ReplayCase == nil {
		fmt.Println("ERROR harness: property has no replay function")
		return 2
	}
	sigs := p.ReplayCase(rf.Job, rf.Case)
	fmt.Printf("recorded signature: %s\nreplayed signatures: %v\n", rf.Signature, sigs)
	for _, s := range sigs {
		if s == rf.Signature {
			fmt.Printf("VIOLATION property=%s replay=%s\n", p.ID, path)
			return 1
		}
	}
	if len(sigs) > 0 {
		fmt.Printf("VIOLATION property=%s replay=%s\n", p.ID, path)
		return 1
	}
	return 0
}
