package a

import (
	"encoding/json"
	"fmt"
	"sort"
	"strings"
	"time"

	"github.com/buildbuildio/pebbles/common"
	"github.com/buildbuildio/pebbles/planner"
)

// C12: downstream round trips are bounded by plan shape, not by result size.

func planLevels(steps []*planner.QueryPlanStep, depth int, out map[string]map[int]bool) {
	for _, s := range steps {
		if s.URL != common.InternalServiceName {
			if out[s.URL] == nil {
				out[s.URL] = map[int]bool{}
			}
			out[s.URL][depth] = true
		}
		planLevels(s.Then, depth+1, out)
	}
}

var c12Data = [][]string{{"data-len1"}, {}, {"data-len5"}, {"data-len20"}, {"data-dup-in-list"}, {"data-dup-in-list", "data-len5"}}

func c12Jobs(tier string) []string {
	worlds := []string{"Wmin", "W0", "W0+entity-list-self", "W0+n2-backref-list", "W0+value-type-list", "W0+entity-list-arg", "W0+root-nullable-list", "W0+third-service",
		"W0+entity-ref-self", "W0+entity-list-nullable"}
	k := 5
	if tier == "thorough" {
		k = 6
		worlds = append(worlds, "W0+entity-list-self+n2-backref-list", "W0+third-service+entity-list-self", "W0+union-list", "W0+interface-entities", "W0+value-type-entity-ref+value-type-list",
			"W0+root-list-of-lists", "W0+service-without-node")
	}
	var jobs []string
	// Wfan: child steps of one level alternate between two other services (tiny schema, deeper K)
	for s := 0; s < 4; s++ {
		jobs = append(jobs, fmt.Sprintf("Wfan|e0p|queryK%d#%d/4", k+1, s))
	}
	// mutations whose root fields live on two services and whose payloads are completed by a third one
	jobs = append(jobs, fmt.Sprintf("W0+mutation-second-service+third-service|e0p|mutK%d", k-1), "Wmin+mutation-second-service+third-service|e0p|mutK4")
	for _, w := range worlds {
		for s := 0; s < 4; s++ {
			jobs = append(jobs, fmt.Sprintf("%s|e0p|queryK%d#%d/4", w, k, s))
		}
		jobs = append(jobs, fmt.Sprintf("%s|e1p|queryK%d", w, k-1))
	}
	// the gateway's default queryer factory, list lengths up to 150 different entities
	jobs = append(jobs, "W0|e0pd|queryK3", "Wmin|e0pd|queryK3")
	return jobs
}

func init() {
	Props["C12"] = &Prop{
		ID:    "C12",
		Level: "exploration",
		Rule: "case = (world, query with <=K fields; mutations with <=K-1 fields on a world with mutation roots on two services and a third service completing both payloads) run under 6 datasets (list length 1, default, 5, 20, duplicates in lists, duplicates+5; through the gateway's default queryer factory: 1, default, 5, 20 and 150 different entities): per service the number of batched HTTP calls must be <= the number of plan levels " +
			"(from the real planner's step tree; operations using the root node() entry point are excluded, see C01 finding) in which the service appears and identical for every list length, also when any one of the downstream calls fails (status 500 / transport error; list length default and 5); within one batched call no two id-only node lookups may carry the same (id, query); " +
			"with duplicate entities the stitched answer must still equal the reference; non-trivial = plan with >=2 levels",
		Assumptions: []string{"with the default batch size 3000 one Queryer.Query call is one HTTP call", "plan levels are taken from SequentialPlanner.Plan called directly"},
		Jobs:        c12Jobs,
		Budget: func(tier string) time.Duration {
			if tier == "quick" {
				return 120 * time.Second
			}
			return 10 * time.Minute
		},
		RunJob: func(tier, job string, from int, em *Emitter) {
			wd, cfg, opset := parseJob(job)
			var feds []*Fed
			data := c12Data
			if cfg.DefaultFactory {
				// the gateway's own queryers (no factory option): lists of 150 different entities on top
				data = append(append([][]string{}, c12Data[:4]...), []string{"data-len150-distinct"})
			}
			for _, da := range data {
				d := WorldDesc{Base: wd.Base, Atoms: append(append([]string{}, wd.Atoms...), da...)}
				w, err := d.Build()
				if err != nil {
					em.GenError("world: " + err.Error())
					return
				}
				f, err := NewFed(w, cfg)
				if err != nil {
					em.GenError("gateway: " + err.Error())
					return
				}
				feds = append(feds, f)
			}
			f0 := feds[1]
			cases := casesFor(f0, opset)
			for i := from; i < len(cases); i++ {
				c := cases[i]
				if strings.Contains(c.Q, "node(id:") {
					// the root node() entry point is mis-planned nondeterministically (C01 finding); its
					// round trips are not judged here
					em.Extra("skipped-root-node-entry-point", 1)
					continue
				}
				rp := replayCase{World: wd.Name(), Cfg: cfg.String(), Query: c.Q, Vars: c.Vars}
				atoms := preAtoms(f0, c)
				if !em.Begin(i, atoms, rp) {
					if em.Capped() {
						return
					}
					continue
				}
				set := map[string]bool{}
				levels := map[string]map[int]bool{}
				func() {
					defer func() { recover() }()
					if plan, _, err := c02Plan(f0, c); err == nil {
						planLevels(plan.RootSteps, 0, levels)
					}
				}()
				maxLevel := 0
				for _, ls := range levels {
					for l := range ls {
						if l > maxLevel {
							maxLevel = l
						}
					}
				}
				var counts []string
				baseDiff := false
				for di, f := range feds {
					o := f.Run(c)
					if !o.Valid || o.RefErr != "" {
						continue
					}
					per := map[int]int{}
					for _, hc := range o.Calls {
						per[hc.Svc]++
					}
					for si, s := range f.W.Services {
						if per[si] > len(levels[s.URL]) {
							set["service called more often than the number of plan levels it appears in"] = true
						}
					}
					// a failing call must not be made up for by more calls: every downstream call of the
					// fault-free run fails once (status 500 / transport error), the bound still holds
					if di == 1 || di == 2 {
						ncalls := len(o.Calls)
						for ci := 0; ci < ncalls; ci++ {
							for _, kind := range []string{"status500", "transport"} {
								ci, kind := ci, kind
								f.Fakes.Reset()
								f.Fakes.FaultFor = func(call, svc, n int) *Fault {
									if call == ci {
										return &Fault{Kind: kind}
									}
									return nil
								}
								f.Post(caseBody(c), "application/json")
								f.Fakes.FaultFor = nil
								perF := map[int]int{}
								for _, hc := range f.Fakes.Calls {
									perF[hc.Svc]++
								}
								for si, s := range f.W.Services {
									if perF[si] > len(levels[s.URL]) {
										set["service called more often than the number of plan levels it appears in when one call fails"] = true
									}
								}
								em.Extra("fault-runs", 1)
							}
						}
					}
					if di < 4 || (cfg.DefaultFactory && di == 4) {
						var ks []string
						for si := range f.W.Services {
							ks = append(ks, fmt.Sprint(per[si]))
						}
						// an empty upstream list legitimately ends a branch; only lengths >=1 are compared
						counts = append(counts, strings.Join(ks, ","))
					}
					// duplicates inside one batched call
					byCall := map[int]map[string]bool{}
					for _, sr := range o.Reqs {
						if len(sr.Variables) == 1 && sr.Variables["id"] != nil && len(sr.Roots) == 1 && sr.Roots[0] == "node" {
							vb, _ := json.Marshal(sr.Variables["id"])
							k := string(vb) + "\x00" + sr.Query
							if byCall[sr.Call] == nil {
								byCall[sr.Call] = map[string]bool{}
							}
							if byCall[sr.Call][k] {
								set["identical id-only lookup sent twice within one level"] = true
							}
							byCall[sr.Call][k] = true
						}
					}
					sg := c01Sigs(o)
					if di == 1 && len(sg) > 0 {
						baseDiff = true
					}
					if di >= 4 && len(sg) > 0 && !baseDiff && cfg.DefaultFactory {
						set["answer wrong only when lists are long: "+sg[0]] = true
					} else if di >= 4 && len(sg) > 0 && !baseDiff {
						set["answer wrong only when lists contain the same entity several times: "+sg[0]] = true
					}
				}
				// lists of an abstract type step through the member types: a list of one entry may hold no
				// member of the type a fragment needs, so only the longer lists (all members present) are compared
				cmp := counts
				for _, at := range atoms {
					if (at == "interface-field" || at == "union-field" || at == "node-interface-field" || at == "frag-on-abstract") && len(counts) == 4 {
						cmp = counts[2:]
					}
				}
				for _, cnt := range cmp[1:] {
					if cnt != cmp[0] {
						set["number of downstream calls depends on the length of result lists"] = true
					}
				}
				if len(set) > 0 {
					var sigs []string
					for k := range set {
						sigs = append(sigs, k)
					}
					sort.Strings(sigs)
					em.Fail(atoms, sigs, rp)
				}
				if i%499 == 0 {
					em.Sample(map[string]interface{}{"case": rp, "calls_per_service_by_dataset": counts, "plan_levels": maxLevel + 1})
				}
				em.Done(maxLevel >= 1)
			}
		},
	}
}
