package a

import (
	"fmt"
	"reflect"
	"sort"
	"strings"
	"time"

	"verif/gqlref"

	"github.com/buildbuildio/pebbles/common"
	"github.com/buildbuildio/pebbles/planner"
	"github.com/buildbuildio/pebbles/requests"
	"github.com/vektah/gqlparser/v2"
	"github.com/vektah/gqlparser/v2/ast"
)

type coord struct {
	path string
	name string
	// key: the response key, kept for id and __typename only: a helper the gateway adds under the plain name is
	// not the field the client selected under an alias
	key string
}

func mkCoord(path []string, name, key string) coord {
	c := coord{path: strings.Join(path, "."), name: name}
	if (name == "id" || name == "__typename") && key != name {
		c.key = key
	}
	return c
}

// clientCoords flattens the client operation into (response path, field name) pairs.
func clientCoords(op *ast.OperationDefinition) map[coord]bool {
	out := map[coord]bool{}
	var walk func(path []string, ss ast.SelectionSet, seen map[string]bool)
	walk = func(path []string, ss ast.SelectionSet, seen map[string]bool) {
		for _, sel := range ss {
			switch x := sel.(type) {
			case *ast.Field:
				if strings.HasPrefix(x.Name, "__") && x.Name != "__typename" {
					continue
				}
				key := x.Alias
				if key == "" {
					key = x.Name
				}
				out[mkCoord(path, x.Name, key)] = true
				if len(x.SelectionSet) > 0 {
					walk(append(append([]string{}, path...), key), x.SelectionSet, seen)
				}
			case *ast.InlineFragment:
				walk(path, x.SelectionSet, seen)
			case *ast.FragmentSpread:
				if x.Definition != nil && !seen[x.Name] {
					seen[x.Name] = true
					walk(path, x.Definition.SelectionSet, seen)
					delete(seen, x.Name)
				}
			}
		}
	}
	walk(nil, op.SelectionSet, map[string]bool{})
	return out
}

// planCoords flattens a plan into (response path, field name) -> step URLs.
func planCoords(steps []*planner.QueryPlanStep, out map[coord][]string) {
	var walk func(url string, path []string, ss ast.SelectionSet)
	walk = func(url string, path []string, ss ast.SelectionSet) {
		for _, sel := range ss {
			switch x := sel.(type) {
			case *ast.Field:
				key := x.Alias
				if key == "" {
					key = x.Name
				}
				out[mkCoord(path, x.Name, key)] = append(out[mkCoord(path, x.Name, key)], url)
				if len(x.SelectionSet) > 0 {
					walk(url, append(append([]string{}, path...), key), x.SelectionSet)
				}
			case *ast.InlineFragment:
				walk(url, path, x.SelectionSet)
			case *ast.FragmentSpread:
				if x.Definition != nil {
					walk(url, path, x.Definition.SelectionSet)
				}
			}
		}
	}
	for _, st := range steps {
		ss := st.SelectionSet
		if !common.IsRootObjectName(st.ParentType) {
			// unwrap node(id:$id) { ... on T { X } }
			if len(ss) == 1 {
				if nf, ok := ss[0].(*ast.Field); ok && nf.Name == "node" {
					ss = nf.SelectionSet
				}
			}
		}
		if st.URL != common.InternalServiceName {
			walk(st.URL, st.InsertionPoint, ss)
		}
		planCoords(st.Then, out)
	}
}

// c02Plan calls the real planner directly on a fresh parse of the operation.
func c02Plan(f *Fed, c Case) (*planner.QueryPlan, *ast.OperationDefinition, error) {
	doc, errs := gqlparser.LoadQuery(f.Merged, c.Q)
	if errs != nil {
		return nil, nil, errs
	}
	op := pickOp(doc, c.OpName)
	var sp planner.SequentialPlanner
	var opn *string
	if c.OpName != "" {
		opn = &c.OpName
	}
	plan, err := sp.Plan(&planner.PlanningContext{Operation: op, Request: &requests.Request{Query: c.Q, Variables: c.Vars, OperationName: opn},
		Schema: f.Merged, TypeURLMap: f.TUM})
	return plan, op, err
}

func c02Sigs(f *Fed, o *Obs) []string {
	set := map[string]bool{}
	clientVars := map[string]bool{}
	for _, vd := range o.Op.VariableDefinitions {
		clientVars[vd.Variable] = true
	}
	for _, sr := range o.Reqs {
		if sr.Invalid != "" {
			set["subrequest-invalid: "+Template(sr.Invalid)] = true
			continue
		}
		if sr.VarError != "" {
			set["subrequest-variable-error: "+Template(sr.VarError)] = true
			continue
		}
		if sr.Doc == nil {
			continue
		}
		for _, op := range sr.Doc.Operations {
			for _, vd := range op.VariableDefinitions {
				if !clientVars[vd.Variable] || vd.Variable == "id" && !clientVars["id"] {
					continue
				}
				want := gqlref.NormNum(o.Coerced[vd.Variable])
				got := gqlref.NormNum(sr.Coerced[vd.Variable])
				if !reflect.DeepEqual(want, got) {
					// the id variable is legitimately overwritten for node lookups
					if vd.Variable == "id" && sr.Keyword == ast.Query && len(sr.Roots) == 1 && sr.Roots[0] == "node" {
						continue
					}
					set[fmt.Sprintf("variable-value-differs: want %s got %s", kindOf(gqlref.Norm(want)), kindOf(gqlref.Norm(got)))] = true
				}
			}
		}
	}
	for _, x := range o.Other {
		set["transport: "+Template(x)] = true
	}
	// plan-level oracles
	func() {
		defer func() {
			if r := recover(); r != nil {
				set["planner-panic: "+Template(fmt.Sprint(r))] = true
			}
		}()
		plan, op, err := c02Plan(f, o.Case)
		if err != nil {
			set["planner-error: "+Template(err.Error())] = true
			return
		}
		cc := clientCoords(op)
		pc := map[coord][]string{}
		planCoords(plan.RootSteps, pc)
		// the planner mutates the operation it plans; recompute client coords from a clean parse
		cc = clientCoords(o.Op)
		for c := range cc {
			if _, ok := pc[c]; !ok {
				if c.path == "" && c.name == "__typename" {
					continue // answered by the gateway itself
				}
				set["plan-drops-client-field: "+keyClass(c.name)] = true
			}
		}
		for c := range pc {
			if cc[c] {
				continue
			}
			if c.name != "id" && c.name != "__typename" {
				if c.name == "node" && c.path == "" {
					continue
				}
				set["plan-adds-non-helper-field"] = true
				continue
			}
			// must be registered for scrubbing at that path
			// (under the name of an object type: objects never answer with the name of an interface or union)
			reg := false
			if m, ok := plan.ScrubFields[c.path]; ok {
				for tn, fields := range m {
					if d := f.Merged.Types[tn]; d != nil && d.IsAbstractType() {
						continue
					}
					for _, fn := range fields {
						if fn == c.name {
							reg = true
						}
					}
				}
			}
			if !reg {
				set["helper-not-registered-for-removal: "+c.name] = true
			}
		}
	}()
	out := make([]string, 0, len(set))
	for k := range set {
		out = append(out, k)
	}
	sort.Strings(out)
	return out
}

func c02Jobs(tier string) []string {
	var jobs []string
	add := func(ws []WorldDesc, cfg, opset string) {
		for _, w := range ws {
			jobs = append(jobs, w.Name()+"|"+cfg+"|"+opset)
		}
	}
	bases := []string{"Wmin", "W0"}
	// tiny deep/fan worlds: every operation up to 8 fields
	add(EnumWorlds([]string{"Wdeep"}, 0, 0), "e0p", "plainK8")
	add(EnumWorlds([]string{"Wdeep"}, 0, 0), "s1c", "plainK8")
	add(EnumWorlds([]string{"Wfan"}, 0, 0), "e0p", "plainK6")
	add(EnumWorlds([]string{"Wfan"}, 0, 0), "s1c", "plainK5")
	if tier == "quick" {
		add(EnumWorlds(bases, 0, 0), "e0p", "plainK5")
		add(EnumWorlds(bases, 0, 0), "e0p", "decK4")
		add(EnumWorlds(bases, 1, 0)[2:], "e0p", "plainK4")
		add(EnumWorlds([]string{"W0"}, 1, 0)[1:], "e0p", "decK2")
		// abstract types below object fields: decorations (named fragments used twice, aliases, ...) on 3-field operations
		for _, w := range []string{"W0+union-under-object", "W0+entity-node-typed-field", "Wmin+union-under-object", "W0+interface-entities", "W0+value-type-entity-ref"} {
			jobs = append(jobs, w+"|e0p|decK3")
		}
		add(EnumWorlds([]string{"W0"}, 2, 0)[len(EnumWorlds([]string{"W0"}, 1, 0)):], "e0p", "plainK3")
		add(EnumWorlds(bases, 0, 0), "s0p", "plainK4")
		return jobs
	}
	add(EnumWorlds(bases, 0, 0), "e0p", "plainK6")
	add(EnumWorlds(bases, 0, 0), "e0p", "decK5")
	add(EnumWorlds(bases, 1, 0)[2:], "e0p", "plainK5")
	add(EnumWorlds(bases, 1, 0)[2:], "e0p", "decK3")
	add(EnumWorlds(bases, 2, 0), "e0p", "plainK4")
	add(EnumWorlds([]string{"W0"}, 3, 0), "e0p", "plainK2")
	add(EnumWorlds(bases, 1, 0), "s0p", "plainK4")
	return jobs
}

func init() {
	Props["C02"] = &Prop{
		ID:    "C02",
		Level: "exploration",
		Rule: "case = (world = base schema set + <=D world atoms, operation); operations as in C01 (all selection trees <=K fields plus every single decoration); observed at two points: " +
			"(i) the plan returned by the real SequentialPlanner.Plan called directly (coverage of client field coordinates, only id/__typename added, each added helper registered in ScrubFields), " +
			"(ii) every request received by the in-memory services (parses, validates against the receiver's own schema, variables coerce, client variable values/defaults arrive); non-trivial = reached a service",
		Assumptions: []string{
			"gqlparser's validator run against each service's own SDL decides validity of sub-requests",
			"field coordinates are (response-key path, field name) with fragments flattened; type conditions are not part of the coordinate",
			"data-independent: one canonical dataset per world",
		},
		Jobs: c02Jobs,
		Budget: func(tier string) time.Duration {
			if tier == "quick" {
				return 120 * time.Second
			}
			return 14 * time.Minute
		},
		RunJob: func(tier, job string, from int, em *Emitter) {
			wd, cfg, opset := parseJob(job)
			w, err := wd.Build()
			if err != nil {
				em.GenError("world: " + err.Error())
				return
			}
			f, err := NewFed(w, cfg)
			if err != nil {
				em.GenError("gateway construction failed for a world meant to merge: " + err.Error())
				return
			}
			cases := casesFor(f, opset)
			for i := from; i < len(cases); i++ {
				c := cases[i]
				rp := replayCase{World: wd.Name(), Cfg: cfg.String(), Query: c.Q, Vars: c.Vars, OpName: c.OpName, Dec: c.Dec}
				if !em.Begin(i, preAtoms(f, c), rp) {
					if em.Capped() {
						return
					}
					continue
				}
				o := f.Run(c)
				if !o.Valid || o.RefErr != "" {
					em.GenError(o.GenError + o.RefErr + " :: " + c.Q)
					em.Done(false)
					continue
				}
				if sigs := c02Sigs(f, o); len(sigs) > 0 {
					em.Fail(caseAtoms(f, o), sigs, rp)
				}
				if i%997 == 0 {
					em.Sample(map[string]interface{}{"case": rp, "subrequests": len(o.Reqs)})
				}
				em.Done(len(o.Reqs) > 0)
			}
		},
	}
}
