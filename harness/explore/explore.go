//go:build verif

// Package explore is the stateless depth-first explorer over choice prefixes
// (DESIGN.md §4.3): run a prefix, take the default choice afterwards, then branch into
// every alternative whose accumulated deviation cost stays within the bound.
package explore

import (
	"fmt"
	"sort"
	"time"

	"github.com/buildbuildio/pebbles/vrt"
)

type Options struct {
	Bound       int  // max deviations (preemptions, map-order, timer); <0 = unbounded
	Cache       bool // prune states already expanded with no larger cost (needs DRF)
	MapBranch   bool
	TimerBudget int
	StartBranch bool
	Horizon     int
	MaxExec     int       // cap on executions (0 = none)
	Deadline    time.Time // zero = none
	ReplayEvery int       // re-run every N-th execution from its recorded choices (0 = 64)
	GroupDepth  int       // see vrt.Config.GroupDepth
	// OutcomeIsProperty: the outcome itself is what the property speaks about (determinism): the same schedule
	// observed with another outcome (same choices, same number of steps) is a failure of the code under test,
	// not a replay divergence of the engine
	OutcomeIsProperty bool
}

type Failure struct {
	Verdict string   `json:"verdict"`
	Choices []int    `json:"choices"`
	Log     []string `json:"log,omitempty"`
}

type Result struct {
	Executions    int
	States        int
	Transitions   int
	Pruned        int
	Replays       int
	Outcomes      map[string]int
	Verdicts      map[string]int
	Failures      []Failure // first failure per distinct verdict
	Capped        string    // non-empty: which cap ended the search early
	WithDeviation int       // executions that took >=1 costed deviation
	MaxGoroutines int
	ChoicePoints  int
	HarnessError  string
}

// Harness builds one fresh instance: body is run as the root goroutine, check is called
// after the execution ended and returns (verdict, outcome); verdict "" means the
// property held on this execution.
type Harness func() (body func(), check func(s *vrt.Sched) (verdict, outcome string))

func Explore(opt Options, mk Harness) *Result {
	res := &Result{Outcomes: map[string]int{}, Verdicts: map[string]int{}}
	if opt.ReplayEvery == 0 {
		opt.ReplayEvery = 64
	}
	seen := map[vrt.StateKey]int{}
	failed := map[string]bool{}

	runOnce := func(prefix []int, trace bool) (*vrt.Sched, string, string) {
		body, check := mk()
		s := vrt.Run(vrt.Config{Prefix: prefix, Horizon: opt.Horizon, MapBranch: opt.MapBranch,
			TimerBudget: opt.TimerBudget, StartBranch: opt.StartBranch, Trace: trace, NoKeys: !opt.Cache, KeyNoLast: opt.Bound < 0, GroupDepth: opt.GroupDepth}, body)
		v, o := "", ""
		switch {
		case s.Diverged != "":
			v = "ENGINE replay divergence: " + s.Diverged
		case s.HorizonHit:
			v = "HORIZON (livelock guard hit)"
			_, o = check(s)
		default:
			v, o = check(s)
		}
		return s, v, o
	}

	var rec func(prefix []int)
	rec = func(prefix []int) {
		if res.Capped != "" {
			return
		}
		if opt.MaxExec > 0 && res.Executions >= opt.MaxExec {
			res.Capped = fmt.Sprintf("execution cap %d", opt.MaxExec)
			return
		}
		if !opt.Deadline.IsZero() && res.Executions%16 == 0 && time.Now().After(opt.Deadline) {
			res.Capped = "deadline"
			return
		}
		s, v, o := runOnce(prefix, false)
		res.Executions++
		res.Transitions += s.Transitions
		res.ChoicePoints += len(s.Choices)
		if n := s.NumGoroutines(); n > res.MaxGoroutines {
			res.MaxGoroutines = n
		}
		res.Outcomes[o]++
		res.Verdicts[v]++
		dev := 0
		for i, c := range s.Choices {
			dev += s.AltCost[i][c]
		}
		if dev > 0 {
			res.WithDeviation++
		}
		if len(v) >= 6 && v[:6] == "ENGINE" {
			res.HarnessError = v
			res.Capped = "engine error"
			return
		}
		if v != "" && !failed[v] {
			failed[v] = true
			// replay the failing schedule five times: the same schedule must fail every time
			full := append([]int{}, s.Choices...)
			stable := true
			var log []string
			for k := 0; k < 5; k++ {
				s2, v2, _ := runOnce(full, true)
				res.Replays++
				if v2 != v || !eqInts(s2.Choices, full) {
					stable = false
					res.HarnessError = fmt.Sprintf("ENGINE nondeterministic replay: %q vs %q", v, v2)
				}
				log = s2.Log
			}
			if stable {
				res.Failures = append(res.Failures, Failure{Verdict: v, Choices: full, Log: tail(log, 60)})
			} else {
				res.Capped = "engine error"
				return
			}
		} else if res.Executions%opt.ReplayEvery == 0 {
			full := append([]int{}, s.Choices...)
			s2, v2, o2 := runOnce(full, false)
			res.Replays++
			if opt.OutcomeIsProperty && v2 == v && o2 != o && eqInts(s2.Choices, full) && s2.Steps == s.Steps {
				res.Outcomes[o2]++
				msg := "the same schedule run twice yields two different outcomes: the answer depends on something besides scheduling and map iteration order"
				if !failed[msg] {
					failed[msg] = true
					res.Failures = append(res.Failures, Failure{Verdict: msg, Choices: full})
				}
			} else if v2 != v || o2 != o || !eqInts(s2.Choices, full) || s2.Steps != s.Steps {
				res.HarnessError = fmt.Sprintf("ENGINE nondeterministic replay: (%q,%q,%d) vs (%q,%q,%d)", v, o, s.Steps, v2, o2, s2.Steps)
				res.Capped = "engine error"
				return
			}
		}
		for i := len(prefix); i < len(s.Choices); i++ {
			cost := s.Cost[i]
			if opt.Cache {
				k := s.Keys[i]
				if c, ok := seen[k]; ok && c <= cost {
					res.Pruned++
					break
				}
				seen[k] = cost
			}
			for alt := 1; alt < s.Alts[i]; alt++ {
				c := cost + s.AltCost[i][alt]
				if opt.Bound >= 0 && c > opt.Bound {
					continue
				}
				np := make([]int, i+1)
				copy(np, s.Choices[:i])
				np[i] = alt
				rec(np)
				if res.Capped != "" {
					return
				}
			}
		}
	}
	rec(nil)
	res.States = len(seen)
	if !opt.Cache {
		res.States = res.ChoicePoints
	}
	return res
}

func eqInts(a, b []int) bool {
	if len(a) != len(b) {
		return false
	}
	for i := range a {
		if a[i] != b[i] {
			return false
		}
	}
	return true
}

func tail(l []string, n int) []string {
	if len(l) > n {
		return l[len(l)-n:]
	}
	return l
}

// OutcomeList renders the outcome histogram deterministically.
func (r *Result) OutcomeList() []string {
	var ks []string
	for k, n := range r.Outcomes {
		ks = append(ks, fmt.Sprintf("%dx %s", n, k))
	}
	sort.Strings(ks)
	return ks
}
