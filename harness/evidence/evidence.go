// Package evidence writes /verif/evidence/<id>.json (schema /root/.vp/EVIDENCE.schema.json)
// and replay artefacts.
package evidence

import (
	"encoding/json"
	"fmt"
	"os"
	"path/filepath"
	"strconv"
	"time"
)

// Root is /verif for the registered commands; VERIF_EVIDENCE_ROOT redirects experiments.
var Root = func() string {
	if d := os.Getenv("VERIF_EVIDENCE_ROOT"); d != "" {
		return d
	}
	return "/verif"
}()

type File struct {
	PropertyID    string                 `json:"property_id"`
	Tier          string                 `json:"tier"`
	Seed          int                    `json:"seed"`
	Level         string                 `json:"level"`
	Coverage      map[string]interface{} `json:"coverage"`
	Assumptions   []string               `json:"assumptions"`
	WallS         float64                `json:"wall_s"`
	Violations    int                    `json:"violations"`
	KnownFindings []string               `json:"known_findings_reproduced,omitempty"`
}

func Seed() int {
	n, _ := strconv.Atoi(os.Getenv("VERIF_SEED"))
	return n
}

func (f *File) Write(start time.Time) error {
	f.WallS = time.Since(start).Seconds()
	f.Seed = Seed()
	if f.Assumptions == nil {
		f.Assumptions = []string{}
	}
	dir := filepath.Join(Root, "evidence")
	name := f.PropertyID + ".json"
	// A property decided by two engines (C19): the first engine writes a part file, the
	// second merges it into the property's evidence.
	if part := os.Getenv("VERIF_EVIDENCE_PART"); part != "" {
		dir = filepath.Join(dir, "parts")
		name = f.PropertyID + "." + part + ".json"
	}
	if part := os.Getenv("VERIF_EVIDENCE_MERGE"); part != "" {
		pb, err := os.ReadFile(filepath.Join(dir, "parts", f.PropertyID+"."+part+".json"))
		if err != nil {
			return fmt.Errorf("evidence part %q missing: %v", part, err)
		}
		var o File
		if err := json.Unmarshal(pb, &o); err != nil {
			return err
		}
		f.merge(part, &o)
	}
	b, err := json.MarshalIndent(f, "", " ")
	if err != nil {
		return err
	}
	os.MkdirAll(dir, 0o755)
	return os.WriteFile(filepath.Join(dir, name), b, 0o644)
}

func num(v interface{}) int {
	switch x := v.(type) {
	case int:
		return x
	case float64:
		return int(x)
	}
	return 0
}

// merge folds another engine's evidence for the same property and run into f: counts add
// up, the other part's full coverage is kept under coverage["part_<name>"].
func (f *File) merge(part string, o *File) {
	c := f.Coverage
	c["part_"+part] = o.Coverage
	c["evaluations"] = num(c["evaluations"]) + num(o.Coverage["evaluations"])
	c["distinct_nontrivial"] = num(c["distinct_nontrivial"]) + num(o.Coverage["distinct_nontrivial"])
	c["rule"] = fmt.Sprint(c["rule"]) + " || " + fmt.Sprint(o.Coverage["rule"])
	if s, ok := o.Coverage["samples"].([]interface{}); ok {
		mine, _ := c["samples"].([]interface{})
		c["samples"] = append(mine, s...)
	}
	if e, ok := o.Coverage["exhaustive"].(bool); ok && !e {
		c["exhaustive"] = false
	}
	for _, k := range []string{"states", "transitions", "traces_validated_against_impl"} {
		if v, ok := o.Coverage[k]; ok {
			c[k] = num(v)
		}
	}
	f.Assumptions = append(f.Assumptions, o.Assumptions...)
	f.Violations += o.Violations
	f.KnownFindings = append(f.KnownFindings, o.KnownFindings...)
	f.WallS += o.WallS
}

// WriteReplay stores a replayable artefact and returns its path.
func WriteReplay(prop, name string, v interface{}) string {
	dir := filepath.Join(Root, "evidence", "replays")
	os.MkdirAll(dir, 0o755)
	p := filepath.Join(dir, fmt.Sprintf("%s-%s.json", prop, name))
	b, _ := json.MarshalIndent(v, "", " ")
	os.WriteFile(p, b, 0o644)
	return p
}
