// Package evidence writes /verif/evidence/<id>.json (schema /root/.vp/EVIDENCE.schema.json)
// and replay artefacts.
package evidence

import (
	"encoding/json"
	"fmt"
	"os"
	"path/filepath"
	"strconv"
	"time"
)

// Root is /verif for the registered commands; VERIF_EVIDENCE_ROOT redirects experiments.
var Root = func() string {
	if d := os.Getenv("VERIF_EVIDENCE_ROOT"); d != "" {
		return d
	}
	return "/verif"
}()

type File struct {
	PropertyID    string                 `json:"property_id"`
	Tier          string                 `json:"tier"`
	Seed          int                    `json:"seed"`
	Level         string                 `json:"level"`
	Coverage      map[string]interface{} `json:"coverage"`
	Assumptions   []string               `json:"assumptions"`
	WallS         float64                `json:"wall_s"`
	Violations    int                    `json:"violations"`
	KnownFindings []string               `json:"known_findings_reproduced,omitempty"`
}

func Seed() int {
	n, _ := strconv.Atoi(os.Getenv("VERIF_SEED"))
	return n
}

func (f *File) Write(start time.Time) error {
	f.WallS = time.Since(start).Seconds()
	f.Seed = Seed()
	if f.Assumptions == nil {
		f.Assumptions = []string{}
	}
	b, err := json.MarshalIndent(f, "", " ")
	if err != nil {
		return err
	}
	dir := filepath.Join(Root, "evidence")
	os.MkdirAll(dir, 0o755)
	return os.WriteFile(filepath.Join(dir, f.PropertyID+".json"), b, 0o644)
}

// WriteReplay stores a replayable artefact and returns its path.
func WriteReplay(prop, name string, v interface{}) string {
	dir := filepath.Join(Root, "evidence", "replays")
	os.MkdirAll(dir, 0o755)
	p := filepath.Join(dir, fmt.Sprintf("%s-%s.json", prop, name))
	b, _ := json.MarshalIndent(v, "", " ")
	os.WriteFile(p, b, 0o644)
	return p
}
