// Package schemacanon gives a canonical, order-free description of a GraphQL schema as a
// flat map fact-key -> value, and a structured diff whose entries become failure
// signatures.  The prelude (built-in scalars, introspection types, built-in directives)
// is left out.
package schemacanon

import (
	"fmt"
	"sort"
	"strings"

	"github.com/vektah/gqlparser/v2/ast"
)

var builtinScalars = map[string]bool{"ID": true, "Int": true, "Float": true, "String": true, "Boolean": true}
var builtinDirectives = map[string]bool{"skip": true, "include": true, "deprecated": true, "specifiedBy": true}

type Options struct {
	NoDescriptions bool
	NoDirectives   bool // applied directives on definitions (other than @deprecated)
}

// Canon returns the facts of a schema.
func Canon(s *ast.Schema, o Options) map[string]string {
	f := map[string]string{}
	if s.Query != nil {
		f["root query"] = s.Query.Name
	}
	if s.Mutation != nil {
		f["root mutation"] = s.Mutation.Name
	}
	if s.Subscription != nil {
		f["root subscription"] = s.Subscription.Name
	}
	for name, t := range s.Types {
		if strings.HasPrefix(name, "__") || builtinScalars[name] {
			continue
		}
		f["type "+name+" kind"] = string(t.Kind)
		if !o.NoDescriptions && t.Description != "" {
			f["type "+name+" description"] = t.Description
		}
		for _, i := range t.Interfaces {
			f["type "+name+" implements "+i] = "yes"
		}
		for _, m := range t.Types {
			f["union "+name+" member "+m] = "yes"
		}
		for _, ev := range t.EnumValues {
			k := "enumvalue " + name + "." + ev.Name
			f[k] = "yes"
			if !o.NoDescriptions && ev.Description != "" {
				f[k+" description"] = ev.Description
			}
			if d := ev.Directives.ForName("deprecated"); d != nil {
				f[k+" deprecated"] = deprecationReason(d)
			}
		}
		for _, fd := range t.Fields {
			if strings.HasPrefix(fd.Name, "__") {
				continue
			}
			kind := "field"
			if t.Kind == ast.InputObject {
				kind = "inputfield"
			}
			k := kind + " " + name + "." + fd.Name
			f[k+" type"] = fd.Type.String()
			if !o.NoDescriptions && fd.Description != "" {
				f[k+" description"] = fd.Description
			}
			if fd.DefaultValue != nil {
				f[k+" default"] = fd.DefaultValue.String()
			}
			if d := fd.Directives.ForName("deprecated"); d != nil {
				f[k+" deprecated"] = deprecationReason(d)
			}
			if !o.NoDirectives {
				for _, d := range fd.Directives {
					if !builtinDirectives[d.Name] {
						f[k+" applied @"+d.Name] = argString(d.Arguments)
					}
				}
			}
			for _, a := range fd.Arguments {
				ak := "arg " + name + "." + fd.Name + "(" + a.Name + ")"
				f[ak+" type"] = a.Type.String()
				if a.DefaultValue != nil {
					f[ak+" default"] = a.DefaultValue.String()
				}
				if !o.NoDescriptions && a.Description != "" {
					f[ak+" description"] = a.Description
				}
			}
		}
		if !o.NoDirectives {
			for _, d := range t.Directives {
				if !builtinDirectives[d.Name] {
					f["type "+name+" applied @"+d.Name] = argString(d.Arguments)
				}
			}
		}
	}
	for name, pts := range s.PossibleTypes {
		if strings.HasPrefix(name, "__") {
			continue
		}
		t := s.Types[name]
		if t == nil || (t.Kind != ast.Interface && t.Kind != ast.Union) {
			continue
		}
		for _, p := range pts {
			f["possible "+name+" <- "+p.Name] = "yes"
		}
	}
	for name, d := range s.Directives {
		if builtinDirectives[name] {
			continue
		}
		locs := make([]string, len(d.Locations))
		for i, l := range d.Locations {
			locs[i] = string(l)
		}
		sort.Strings(locs)
		f["directive @"+name+" locations"] = strings.Join(locs, "|")
		if d.IsRepeatable {
			f["directive @"+name+" repeatable"] = "yes"
		}
		if !o.NoDescriptions && d.Description != "" {
			f["directive @"+name+" description"] = d.Description
		}
		for _, a := range d.Arguments {
			ak := "directivearg @" + name + "(" + a.Name + ")"
			f[ak+" type"] = a.Type.String()
			if a.DefaultValue != nil {
				f[ak+" default"] = a.DefaultValue.String()
			}
		}
	}
	return f
}

func deprecationReason(d *ast.Directive) string {
	if a := d.Arguments.ForName("reason"); a != nil && a.Value != nil {
		return a.Value.Raw
	}
	return "No longer supported"
}

func argString(args ast.ArgumentList) string {
	var p []string
	for _, a := range args {
		p = append(p, a.Name+":"+a.Value.String())
	}
	sort.Strings(p)
	return strings.Join(p, ",")
}

// Class abstracts a fact key to its kind: "field N1.name type" -> "field type".
func Class(key string) string {
	p := strings.Fields(key)
	if len(p) == 0 {
		return key
	}
	switch p[0] {
	case "root":
		return key
	case "type":
		if len(p) >= 3 {
			if p[2] == "implements" {
				return "type implements"
			}
			if p[2] == "applied" {
				return "type applied-directive"
			}
			return "type " + p[2]
		}
	case "union":
		return "union member"
	case "possible":
		return "possible type"
	case "enumvalue":
		if len(p) >= 3 {
			return "enumvalue " + p[2]
		}
		return "enumvalue"
	case "field", "inputfield", "arg", "directive", "directivearg":
		if len(p) >= 3 {
			if p[2] == "applied" {
				return p[0] + " applied-directive"
			}
			return p[0] + " " + p[2]
		}
	}
	return p[0]
}

type DiffEntry struct {
	Kind  string // MISSING (in want, not in got) | EXTRA | CHANGED
	Key   string
	Want  string
	Got   string
}

func (d DiffEntry) String() string {
	switch d.Kind {
	case "CHANGED":
		return fmt.Sprintf("CHANGED %s: want %q got %q", d.Key, d.Want, d.Got)
	case "MISSING":
		return fmt.Sprintf("MISSING %s (= %q)", d.Key, d.Want)
	}
	return fmt.Sprintf("EXTRA %s (= %q)", d.Key, d.Got)
}

// Sig is the abstracted signature of a diff entry.
func (d DiffEntry) Sig() string { return d.Kind + " " + Class(d.Key) }

// Diff compares want with got.
func Diff(want, got map[string]string) []DiffEntry {
	var out []DiffEntry
	for k, w := range want {
		g, ok := got[k]
		if !ok {
			out = append(out, DiffEntry{Kind: "MISSING", Key: k, Want: w})
		} else if g != w {
			out = append(out, DiffEntry{Kind: "CHANGED", Key: k, Want: w, Got: g})
		}
	}
	for k, g := range got {
		if _, ok := want[k]; !ok {
			out = append(out, DiffEntry{Kind: "EXTRA", Key: k, Got: g})
		}
	}
	sort.Slice(out, func(i, j int) bool { return out[i].Key+out[i].Kind < out[j].Key+out[j].Kind })
	return out
}
