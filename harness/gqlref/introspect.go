package gqlref

import (
	"sort"
	"strings"

	"github.com/vektah/gqlparser/v2/ast"
)

// IntrospectResolver answers __schema / __type in the shape the GraphQL specification
// (June 2018 / October 2021 subset that gqlparser 2.5.1's prelude declares) prescribes.
// Fields it does not know are delegated to Next.
type IntrospectResolver struct {
	Schema *ast.Schema
	Next   Resolver
}

func typeObj(t *ast.Type) Obj {
	if t == nil {
		return nil
	}
	return Obj{"__t": "__Type", "ref": t}
}

func namedObj(d *ast.Definition) Obj {
	if d == nil {
		return nil
	}
	return Obj{"__t": "__Type", "def": d}
}

func boolArg(args map[string]interface{}, name string) bool {
	b, _ := args[name].(bool)
	return b
}

func deprecated(ds ast.DirectiveList) (bool, interface{}) {
	d := ds.ForName("deprecated")
	if d == nil {
		return false, nil
	}
	if a := d.Arguments.ForName("reason"); a != nil && a.Value != nil {
		if a.Value.Kind == ast.NullValue {
			return true, nil
		}
		return true, a.Value.Raw
	}
	return true, "No longer supported"
}

func nilIfEmpty(s string) interface{} {
	if s == "" {
		return nil
	}
	return s
}

func (r *IntrospectResolver) Resolve(typ string, obj Obj, f *ast.Field, args map[string]interface{}) interface{} {
	s := r.Schema
	switch typ {
	case "__Schema":
		switch f.Name {
		case "description":
			return nilIfEmpty(s.Description)
		case "types":
			names := make([]string, 0, len(s.Types))
			for n := range s.Types {
				names = append(names, n)
			}
			sort.Strings(names)
			out := make([]interface{}, 0, len(names))
			for _, n := range names {
				out = append(out, namedObj(s.Types[n]))
			}
			return out
		case "queryType":
			return namedObj(s.Query)
		case "mutationType":
			if s.Mutation == nil {
				return nil
			}
			return namedObj(s.Mutation)
		case "subscriptionType":
			if s.Subscription == nil {
				return nil
			}
			return namedObj(s.Subscription)
		case "directives":
			names := make([]string, 0, len(s.Directives))
			for n := range s.Directives {
				names = append(names, n)
			}
			sort.Strings(names)
			out := make([]interface{}, 0, len(names))
			for _, n := range names {
				out = append(out, Obj{"__t": "__Directive", "def": s.Directives[n]})
			}
			return out
		}
	case "__Type":
		if ref, ok := obj["ref"].(*ast.Type); ok {
			if ref.NonNull {
				switch f.Name {
				case "kind":
					return "NON_NULL"
				case "ofType":
					c := *ref
					c.NonNull = false
					return typeObj(&c)
				}
				return nil
			}
			if ref.Elem != nil {
				switch f.Name {
				case "kind":
					return "LIST"
				case "ofType":
					return typeObj(ref.Elem)
				}
				return nil
			}
			d := s.Types[ref.NamedType]
			if d == nil {
				return nil
			}
			return r.Resolve(typ, namedObj(d), f, args)
		}
		d, _ := obj["def"].(*ast.Definition)
		if d == nil {
			return nil
		}
		switch f.Name {
		case "kind":
			return string(d.Kind)
		case "name":
			return d.Name
		case "description":
			return nilIfEmpty(d.Description)
		case "specifiedByURL":
			return nil
		case "fields":
			if d.Kind != ast.Object && d.Kind != ast.Interface {
				return nil
			}
			out := []interface{}{}
			for _, fd := range d.Fields {
				if strings.HasPrefix(fd.Name, "__") {
					continue
				}
				if dep, _ := deprecated(fd.Directives); dep && !boolArg(args, "includeDeprecated") {
					continue
				}
				out = append(out, Obj{"__t": "__Field", "def": fd})
			}
			return out
		case "interfaces":
			if d.Kind != ast.Object && d.Kind != ast.Interface {
				return nil
			}
			out := []interface{}{}
			for _, i := range d.Interfaces {
				out = append(out, namedObj(s.Types[i]))
			}
			return out
		case "possibleTypes":
			if d.Kind != ast.Interface && d.Kind != ast.Union {
				return nil
			}
			out := []interface{}{}
			for _, p := range s.PossibleTypes[d.Name] {
				out = append(out, namedObj(p))
			}
			return out
		case "enumValues":
			if d.Kind != ast.Enum {
				return nil
			}
			out := []interface{}{}
			for _, ev := range d.EnumValues {
				if dep, _ := deprecated(ev.Directives); dep && !boolArg(args, "includeDeprecated") {
					continue
				}
				out = append(out, Obj{"__t": "__EnumValue", "def": ev})
			}
			return out
		case "inputFields":
			if d.Kind != ast.InputObject {
				return nil
			}
			out := []interface{}{}
			for _, fd := range d.Fields {
				out = append(out, Obj{"__t": "__InputValue", "name": fd.Name, "description": fd.Description, "type": fd.Type, "default": fd.DefaultValue})
			}
			return out
		case "ofType":
			return nil
		}
	case "__Field":
		fd := obj["def"].(*ast.FieldDefinition)
		switch f.Name {
		case "name":
			return fd.Name
		case "description":
			return nilIfEmpty(fd.Description)
		case "args":
			out := []interface{}{}
			for _, a := range fd.Arguments {
				out = append(out, Obj{"__t": "__InputValue", "name": a.Name, "description": a.Description, "type": a.Type, "default": a.DefaultValue})
			}
			return out
		case "type":
			return typeObj(fd.Type)
		case "isDeprecated":
			dep, _ := deprecated(fd.Directives)
			return dep
		case "deprecationReason":
			_, reason := deprecated(fd.Directives)
			return reason
		}
	case "__InputValue":
		switch f.Name {
		case "name":
			return obj["name"]
		case "description":
			return nilIfEmpty(obj["description"].(string))
		case "type":
			return typeObj(obj["type"].(*ast.Type))
		case "defaultValue":
			if v, _ := obj["default"].(*ast.Value); v != nil {
				return v.String()
			}
			return nil
		case "isDeprecated":
			return false
		case "deprecationReason":
			return nil
		}
	case "__EnumValue":
		ev := obj["def"].(*ast.EnumValueDefinition)
		switch f.Name {
		case "name":
			return ev.Name
		case "description":
			return nilIfEmpty(ev.Description)
		case "isDeprecated":
			dep, _ := deprecated(ev.Directives)
			return dep
		case "deprecationReason":
			_, reason := deprecated(ev.Directives)
			return reason
		}
	case "__Directive":
		dd := obj["def"].(*ast.DirectiveDefinition)
		switch f.Name {
		case "name":
			return dd.Name
		case "description":
			return nilIfEmpty(dd.Description)
		case "isRepeatable":
			return dd.IsRepeatable
		case "locations":
			out := []interface{}{}
			for _, l := range dd.Locations {
				out = append(out, string(l))
			}
			return out
		case "args":
			out := []interface{}{}
			for _, a := range dd.Arguments {
				out = append(out, Obj{"__t": "__InputValue", "name": a.Name, "description": a.Description, "type": a.Type, "default": a.DefaultValue})
			}
			return out
		}
	default:
		switch f.Name {
		case "__schema":
			return Obj{"__t": "__Schema"}
		case "__type":
			n, _ := args["name"].(string)
			return namedObj(s.Types[n])
		}
		if r.Next != nil {
			return r.Next.Resolve(typ, obj, f, args)
		}
	}
	return nil
}
