package gqlref

import (
	"fmt"
	"sort"
	"strings"

	"github.com/vektah/gqlparser/v2"
	"github.com/vektah/gqlparser/v2/ast"
)

// FromIntrospection is a standard client: it rebuilds a schema from the `data` of a
// standard introspection answer by printing SDL and loading it.
func FromIntrospection(data map[string]interface{}) (*ast.Schema, string, error) {
	sc, _ := data["__schema"].(map[string]interface{})
	if sc == nil {
		return nil, "", fmt.Errorf("no __schema in answer")
	}
	var b strings.Builder
	name := func(v interface{}) string {
		m, _ := v.(map[string]interface{})
		if m == nil {
			return ""
		}
		s, _ := m["name"].(string)
		return s
	}
	q, m, s := name(sc["queryType"]), name(sc["mutationType"]), name(sc["subscriptionType"])
	if q == "" {
		return nil, "", fmt.Errorf("no query type")
	}
	if q != "Query" || (m != "" && m != "Mutation") || (s != "" && s != "Subscription") {
		b.WriteString("schema { query: " + q)
		if m != "" {
			b.WriteString(" mutation: " + m)
		}
		if s != "" {
			b.WriteString(" subscription: " + s)
		}
		b.WriteString(" }\n")
	}
	types, _ := sc["types"].([]interface{})
	sort.SliceStable(types, func(i, j int) bool { return name(types[i]) < name(types[j]) })
	for _, tv := range types {
		t, _ := tv.(map[string]interface{})
		if t == nil {
			return nil, "", fmt.Errorf("type entry is not an object")
		}
		n := name(t)
		if strings.HasPrefix(n, "__") || n == "ID" || n == "Int" || n == "Float" || n == "String" || n == "Boolean" {
			continue
		}
		desc(&b, t["description"])
		switch t["kind"] {
		case "SCALAR":
			fmt.Fprintf(&b, "scalar %s\n", n)
		case "ENUM":
			fmt.Fprintf(&b, "enum %s {\n", n)
			vals, _ := t["enumValues"].([]interface{})
			for _, ev := range vals {
				e, _ := ev.(map[string]interface{})
				desc(&b, e["description"])
				fmt.Fprintf(&b, "  %s%s\n", e["name"], depr(e))
			}
			b.WriteString("}\n")
		case "UNION":
			var ms []string
			pts, _ := t["possibleTypes"].([]interface{})
			for _, p := range pts {
				ms = append(ms, name(p))
			}
			fmt.Fprintf(&b, "union %s = %s\n", n, strings.Join(ms, " | "))
		case "INPUT_OBJECT":
			fmt.Fprintf(&b, "input %s {\n", n)
			ifs, _ := t["inputFields"].([]interface{})
			for _, iv := range ifs {
				b.WriteString("  " + inputValue(iv) + "\n")
			}
			b.WriteString("}\n")
		case "OBJECT", "INTERFACE":
			kw := "type"
			if t["kind"] == "INTERFACE" {
				kw = "interface"
			}
			fmt.Fprintf(&b, "%s %s", kw, n)
			ifs, _ := t["interfaces"].([]interface{})
			var ins []string
			for _, i := range ifs {
				ins = append(ins, name(i))
			}
			if len(ins) > 0 {
				b.WriteString(" implements " + strings.Join(ins, " & "))
			}
			b.WriteString(" {\n")
			fs, _ := t["fields"].([]interface{})
			for _, fv := range fs {
				f, _ := fv.(map[string]interface{})
				desc(&b, f["description"])
				fmt.Fprintf(&b, "  %s", f["name"])
				args, _ := f["args"].([]interface{})
				if len(args) > 0 {
					var as []string
					for _, a := range args {
						as = append(as, inputValue(a))
					}
					b.WriteString("(" + strings.Join(as, ", ") + ")")
				}
				fmt.Fprintf(&b, ": %s%s\n", typeRef(f["type"]), depr(f))
			}
			b.WriteString("}\n")
		default:
			return nil, "", fmt.Errorf("unknown kind %v for type %s", t["kind"], n)
		}
	}
	dirs, _ := sc["directives"].([]interface{})
	for _, dv := range dirs {
		d, _ := dv.(map[string]interface{})
		n := name(d)
		if n == "skip" || n == "include" || n == "deprecated" || n == "specifiedBy" {
			continue
		}
		desc(&b, d["description"])
		fmt.Fprintf(&b, "directive @%s", n)
		args, _ := d["args"].([]interface{})
		if len(args) > 0 {
			var as []string
			for _, a := range args {
				as = append(as, inputValue(a))
			}
			b.WriteString("(" + strings.Join(as, ", ") + ")")
		}
		if rep, _ := d["isRepeatable"].(bool); rep {
			b.WriteString(" repeatable")
		}
		var locs []string
		ls, _ := d["locations"].([]interface{})
		for _, l := range ls {
			locs = append(locs, fmt.Sprint(l))
		}
		b.WriteString(" on " + strings.Join(locs, " | ") + "\n")
	}
	sdl := b.String()
	schema, err := gqlparser.LoadSchema(&ast.Source{Name: "from-introspection", Input: sdl})
	if err != nil {
		return nil, sdl, err
	}
	return schema, sdl, nil
}

func desc(b *strings.Builder, d interface{}) {
	s, _ := d.(string)
	if s == "" {
		return
	}
	fmt.Fprintf(b, "\"\"\"\n%s\n\"\"\"\n", strings.ReplaceAll(s, `"""`, `\"""`))
}

func depr(m map[string]interface{}) string {
	if dep, _ := m["isDeprecated"].(bool); !dep {
		return ""
	}
	if r, ok := m["deprecationReason"].(string); ok {
		return fmt.Sprintf(" @deprecated(reason: %q)", r)
	}
	return " @deprecated"
}

func typeRef(v interface{}) string {
	m, _ := v.(map[string]interface{})
	if m == nil {
		return "<nil>"
	}
	switch m["kind"] {
	case "NON_NULL":
		return typeRef(m["ofType"]) + "!"
	case "LIST":
		return "[" + typeRef(m["ofType"]) + "]"
	}
	s, _ := m["name"].(string)
	return s
}

func inputValue(v interface{}) string {
	m, _ := v.(map[string]interface{})
	if m == nil {
		return "<nil>"
	}
	var b strings.Builder
	if d, _ := m["description"].(string); d != "" {
		fmt.Fprintf(&b, "%q ", d)
	}
	fmt.Fprintf(&b, "%s: %s", m["name"], typeRef(m["type"]))
	if dv, ok := m["defaultValue"].(string); ok {
		b.WriteString(" = " + dv)
	}
	return b.String()
}
