// Package gqlref is the boring reference: a single-server GraphQL executor
// (CollectFields with fragments / type conditions / @skip / @include, response-key
// merging, argument and variable coercion through gqlparser's validator, list / null
// completion, __typename) over a pluggable resolver.  It never imports pebbles.
package gqlref

import (
	"encoding/json"
	"fmt"
	"math"
	"sort"
	"strings"

	"github.com/vektah/gqlparser/v2/ast"
	"github.com/vektah/gqlparser/v2/validator"
)

// Obj is a resolved object; "__t" holds its concrete type name.
type Obj = map[string]interface{}

// Resolver resolves field fd of an object of concrete type typ.  Results: nil, scalar,
// Obj, or []interface{} of those.
type Resolver interface {
	Resolve(typ string, obj Obj, f *ast.Field, args map[string]interface{}) interface{}
}

type ResolverFunc func(typ string, obj Obj, f *ast.Field, args map[string]interface{}) interface{}

func (r ResolverFunc) Resolve(typ string, obj Obj, f *ast.Field, args map[string]interface{}) interface{} {
	return r(typ, obj, f, args)
}

type Eval struct {
	Schema *ast.Schema
	Res    Resolver
	Vars   map[string]interface{}
	// Seen, if non-nil, collects observations made while evaluating (feature extraction).
	Seen map[string]bool
}

// Execute evaluates one operation with raw (JSON-decoded) variables.
func Execute(schema *ast.Schema, res Resolver, op *ast.OperationDefinition, rawVars map[string]interface{}, seen map[string]bool) (map[string]interface{}, error) {
	vars, err := validator.VariableValues(schema, op, rawVars)
	if err != nil {
		return nil, err
	}
	root := "Query"
	switch op.Operation {
	case ast.Mutation:
		root = "Mutation"
	case ast.Subscription:
		root = "Subscription"
	}
	if d := rootDef(schema, op.Operation); d != nil {
		root = d.Name
	}
	e := &Eval{Schema: schema, Res: res, Vars: vars, Seen: seen}
	return e.Exec(root, Obj{"__t": root}, op.SelectionSet), nil
}

func rootDef(s *ast.Schema, o ast.Operation) *ast.Definition {
	switch o {
	case ast.Query:
		return s.Query
	case ast.Mutation:
		return s.Mutation
	case ast.Subscription:
		return s.Subscription
	}
	return nil
}

func (e *Eval) see(k string) {
	if e.Seen != nil {
		e.Seen[k] = true
	}
}

func (e *Eval) dirOK(ds ast.DirectiveList) bool {
	for _, d := range ds {
		if d.Name != "skip" && d.Name != "include" {
			continue
		}
		a := d.Arguments.ForName("if")
		if a == nil {
			continue
		}
		v, _ := a.Value.Value(e.Vars)
		b, _ := v.(bool)
		if d.Name == "skip" && b {
			return false
		}
		if d.Name == "include" && !b {
			return false
		}
	}
	return true
}

func (e *Eval) matches(typ, cond string) bool {
	if cond == "" || typ == cond {
		return true
	}
	for _, pt := range e.Schema.PossibleTypes[cond] {
		if pt.Name == typ {
			return true
		}
	}
	return false
}

func (e *Eval) collect(typ string, ss ast.SelectionSet, order *[]string, groups map[string][]*ast.Field, visited map[string]bool) {
	for _, s := range ss {
		switch s := s.(type) {
		case *ast.Field:
			if !e.dirOK(s.Directives) {
				continue
			}
			key := s.Alias
			if key == "" {
				key = s.Name
			}
			if _, ok := groups[key]; !ok {
				*order = append(*order, key)
			}
			groups[key] = append(groups[key], s)
		case *ast.InlineFragment:
			if e.dirOK(s.Directives) && e.matches(typ, s.TypeCondition) {
				e.collect(typ, s.SelectionSet, order, groups, visited)
			}
		case *ast.FragmentSpread:
			if visited[s.Name] || s.Definition == nil {
				continue
			}
			if e.dirOK(s.Directives) && e.matches(typ, s.Definition.TypeCondition) {
				visited[s.Name] = true
				e.collect(typ, s.Definition.SelectionSet, order, groups, visited)
			}
		}
	}
}

// Exec evaluates a selection set on an object of concrete type typ.
func (e *Eval) Exec(typ string, obj Obj, ss ast.SelectionSet) map[string]interface{} {
	var order []string
	groups := map[string][]*ast.Field{}
	e.collect(typ, ss, &order, groups, map[string]bool{})
	out := map[string]interface{}{}
	for _, k := range order {
		fs := groups[k]
		f := fs[0]
		if f.Name == "__typename" {
			out[k] = typ
			continue
		}
		args := f.ArgumentMap(e.Vars)
		v := e.Res.Resolve(typ, obj, f, args)
		var subs ast.SelectionSet
		for _, ff := range fs {
			subs = append(subs, ff.SelectionSet...)
		}
		out[k] = e.complete(v, subs, 0)
	}
	return out
}

func (e *Eval) complete(v interface{}, ss ast.SelectionSet, depth int) interface{} {
	switch v := v.(type) {
	case nil:
		if depth > 0 {
			e.see("null-in-list")
		}
		return nil
	case []interface{}:
		r := make([]interface{}, len(v))
		for i, x := range v {
			r[i] = e.complete(x, ss, depth+1)
		}
		return r
	case Obj:
		if v == nil {
			return nil
		}
		if len(ss) == 0 {
			return v // custom scalar carrying a map
		}
		return e.Exec(v["__t"].(string), v, ss)
	default:
		return v
	}
}

// NormNum maps every JSON-ish numeric representation to a canonical one.
func NormNum(v interface{}) interface{} {
	switch x := v.(type) {
	case int:
		return int64(x)
	case int32:
		return int64(x)
	case int64:
		return x
	case float32:
		return NormNum(float64(x))
	case float64:
		if x == math.Trunc(x) && math.Abs(x) < 1e15 {
			return int64(x)
		}
		return x
	case json.Number:
		if i, err := x.Int64(); err == nil {
			return i
		}
		f, _ := x.Float64()
		return NormNum(f)
	case map[string]interface{}:
		o := map[string]interface{}{}
		for k, vv := range x {
			o[k] = NormNum(vv)
		}
		return o
	case []interface{}:
		o := make([]interface{}, len(x))
		for i, vv := range x {
			o[i] = NormNum(vv)
		}
		return o
	}
	return v
}

// CanonArgs renders coerced arguments canonically ("" when there are none).
func CanonArgs(args map[string]interface{}) string {
	if len(args) == 0 {
		return ""
	}
	keys := make([]string, 0, len(args))
	for k := range args {
		keys = append(keys, k)
	}
	sort.Strings(keys)
	var sb strings.Builder
	for _, k := range keys {
		b, _ := json.Marshal(NormNum(args[k]))
		fmt.Fprintf(&sb, "|%s=%s", k, b)
	}
	return sb.String()
}

// Norm round-trips a value through JSON (what a client would see).
func Norm(v interface{}) interface{} {
	b, err := json.Marshal(v)
	if err != nil {
		return fmt.Sprintf("<unmarshalable: %v>", err)
	}
	var o interface{}
	json.Unmarshal(b, &o)
	return o
}

// Prune is the tolerated difference of C01 (DESIGN §5.3): P(obj) drops keys whose value is
// EMPTY and is EMPTY if nothing is left; P(list) is EMPTY iff non-empty and all elements
// are EMPTY objects.
func Prune(v interface{}) (interface{}, bool) {
	switch v := v.(type) {
	case map[string]interface{}:
		out := map[string]interface{}{}
		for k, x := range v {
			px, empty := Prune(x)
			if empty {
				continue
			}
			out[k] = px
		}
		return out, len(out) == 0
	case []interface{}:
		// like the scrubber: null entries do not keep a list alive, but a list needs at
		// least one (empty) object to count as "objects left empty"
		out := make([]interface{}, len(v))
		all, some := true, false
		for i, x := range v {
			px, empty := Prune(x)
			switch x.(type) {
			case map[string]interface{}, []interface{}:
				some = true
				if !empty {
					all = false
				}
			case nil:
			default:
				all = false
			}
			out[i] = px
		}
		return out, all && some
	default:
		return v, false
	}
}
