// Package findings matches failures against /verif/known_findings.json (committed,
// never written at run time).  A failure is covered only if its property matches, the
// case's atom set contains every atom of the entry, and the failure signature matches
// the entry's regular expression.  `fixed` entries suppress nothing.
package findings

import (
	"encoding/json"
	"fmt"
	"os"
	"regexp"
	"sort"
	"strings"
)

type Entry struct {
	Property  string   `json:"property"`
	Status    string   `json:"status"` // known | fixed
	ID        string   `json:"id"`
	Atoms     []string `json:"atoms,omitempty"`
	NotAtoms  []string `json:"not_atoms,omitempty"`
	Signature string   `json:"signature"`
	Commit    string   `json:"commit,omitempty"`
	Witness   string   `json:"witness,omitempty"`
	What      string   `json:"what"`

	re *regexp.Regexp
}

type Set struct {
	Entries []*Entry
	hit     map[string]int
}

// Path of the committed findings file (VERIF_ROOT only moves it together with the whole framework).
var Path = func() string {
	if d := os.Getenv("VERIF_ROOT"); d != "" {
		return d + "/known_findings.json"
	}
	return "/verif/known_findings.json"
}()

func Load() (*Set, error) {
	s := &Set{hit: map[string]int{}}
	b, err := os.ReadFile(Path)
	if err != nil {
		if os.IsNotExist(err) {
			return s, nil
		}
		return nil, err
	}
	if err := json.Unmarshal(b, &s.Entries); err != nil {
		return nil, fmt.Errorf("%s: %v", Path, err)
	}
	for _, e := range s.Entries {
		re, err := regexp.Compile(e.Signature)
		if err != nil {
			return nil, fmt.Errorf("%s: entry %s: %v", Path, e.ID, err)
		}
		e.re = re
	}
	return s, nil
}

// Match returns the known entry covering the failure, or nil.
func (s *Set) Match(prop string, atoms []string, sig string) *Entry {
	have := map[string]bool{}
	for _, a := range atoms {
		have[a] = true
	}
next:
	for _, e := range s.Entries {
		if e.Status != "known" || e.Property != prop {
			continue
		}
		for _, a := range e.Atoms {
			if !have[a] {
				continue next
			}
		}
		for _, a := range e.NotAtoms {
			if have[a] {
				continue next
			}
		}
		if !e.re.MatchString(sig) {
			continue
		}
		s.hit[e.ID]++
		return e
	}
	return nil
}

// Report prints one KNOWN-FINDING line per entry that matched at least once and returns
// the lines.
func (s *Set) Report(prop string) []string {
	var out []string
	for _, e := range s.Entries {
		if e.Property == prop && s.hit[e.ID] > 0 {
			out = append(out, fmt.Sprintf("KNOWN-FINDING: property=%s %s: %s (%d cases)", prop, e.ID, e.What, s.hit[e.ID]))
		}
	}
	sort.Strings(out)
	for _, l := range out {
		fmt.Println(l)
	}
	return out
}

func (s *Set) Hits(id string) int { return s.hit[id] }

// AtomString renders an atom set canonically.
func AtomString(atoms []string) string {
	a := append([]string{}, atoms...)
	sort.Strings(a)
	return strings.Join(a, ",")
}
