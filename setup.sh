#!/bin/bash
# Offline setup: build the tools, pre-warm the Go build cache, run the engine self-tests.
set -e
cd /verif/harness
export GOFLAGS=-mod=mod GOPROXY=off GOSUMDB=off GOTOOLCHAIN=local
mkdir -p /verif/build/bin /verif/evidence
go build -o /verif/build/bin/vrewrite ./cmd/vrewrite
(cd /repo && go build ./...)
if [ -d ./cmd/acheck ]; then go build -o /verif/build/bin/acheck ./cmd/acheck; fi
# the race complement pass of C08 builds the same worker with -race: warm that cache too
go build -race -o /verif/build/bin/acheck_race ./cmd/acheck
/verif/check selftest quick
echo "setup done"
