#!/bin/bash
# vet every delivered mutant and run its own property's check (quick) against it
for m in $(ls -d /tmp/mut/*/MUTANT_* | sort); do
  id=$(basename $(dirname $m)); k=$(basename $m)
  echo "######## $id $k"
  /verif/tools/vetmutant.sh /tmp/mut/$id $m 2>&1 | cut -c1-300
  /verif/tools/trymutant.sh $m/patch.diff $id 2>&1 | cut -c1-260
done
