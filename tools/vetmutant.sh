#!/bin/bash
# usage: vetmutant.sh <worktree> <MUTANT dir>   confirms in the scratch worktree: patch applies, repo tests pass with it,
# the demonstration fails with it and passes without it.
set -u
WT="$1"; M="$2"
export GOFLAGS=-mod=mod GOPROXY=off GOSUMDB=off GOTOOLCHAIN=local
cd "$WT" || exit 2
git checkout -q -- . 2>/dev/null
DEMOS=$(find "$M" -name '*.go.txt' -o -name '*_test.go' | sort)
[ -z "$DEMOS" ] && { echo "no demo found"; exit 2; }
COPIED=""
for d in $DEMOS; do
  pkg=$(grep -m1 '^package ' "$d" | awk '{print $2}')
  case "$pkg" in
    pebbles|pebbles_test) dir=. ;;
    *_test) dir=${pkg%_test} ;;
    *) dir=$pkg ;;
  esac
  base=$(basename "$d" .txt)
  case "$base" in *_test.go) ;; *) base="${base%.go}_test.go" ;; esac
  cp "$d" "$dir/zz_$base"; COPIED="$COPIED $dir/zz_$base"; DIR=$dir
done
TESTS=$(grep -h '^func Test' $COPIED | sed 's/func \(Test[A-Za-z0-9_]*\).*/\1/' | paste -sd'|')
echo "demo tests: $TESTS in ./$DIR"
W0=$(go test -vet=off -count=1 -run "^($TESTS)\$" ./$DIR 2>&1 | tail -3 | tr '\n' ' ')
echo "without patch: $W0"
git apply "$M/patch.diff" 2>/dev/null || git apply -3 "$M/patch.diff" || { echo "PATCH DOES NOT APPLY"; rm -f $COPIED; git reset -q --hard; exit 2; }
W1=$(go test -vet=off -count=1 -run "^($TESTS)\$" ./$DIR 2>&1 | grep -E '^(--- FAIL|FAIL|ok|panic)' | head -4 | tr '\n' ' ')
echo "with patch:    $W1"
rm -f $COPIED
SUITE=$(go test -vet=off -count=1 ./... 2>&1 | grep -v '^ok' | head -4 | tr '\n' ' ')
echo "suite with patch: ${SUITE:-all ok}"
git reset -q --hard
