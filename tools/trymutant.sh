#!/bin/bash
# usage: trymutant.sh <patch.diff> [check ids...]   applies the patch to /repo, runs the repo's tests and the given
# checks (default: all), prints a one-line verdict per check, and reverts /repo.
set -u
PATCH="$1"; shift
CHECKS="${*:-C01 C02 C03 C04 C05 C06 C07 C08 C09 C10 C11 C12 C13 C14 C15 C16 C17 C18 C19 C20}"
TIER="${TIER:-quick}"
cd /repo || exit 2
if [ -n "$(git status --porcelain)" ]; then echo "repo not clean"; exit 2; fi
git apply "$PATCH" || { echo "patch does not apply"; exit 2; }
export GOFLAGS=-mod=mod GOPROXY=off GOSUMDB=off GOTOOLCHAIN=local
if go build ./... >/dev/null 2>&1; then echo "build: ok"; else echo "build: FAILS"; fi
T=$(go test -vet=off -count=1 ./... 2>&1 | grep -v '^ok' | head -5)
if [ -z "$T" ]; then echo "repo tests: pass"; else echo "repo tests: FAIL: $T"; fi
for c in $CHECKS; do
  OUT=$(/verif/check $c $TIER 2>&1)
  RC=$?
  V=$(echo "$OUT" | grep -c '^VIOLATION')
  FIRST=$(echo "$OUT" | grep -m1 -E 'violation' | cut -c1-200)
  echo "$c rc=$RC violations=$V $FIRST"
done
git checkout -- . ; git clean -fdq -- . 2>/dev/null
