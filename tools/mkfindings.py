#!/usr/bin/env python3
"""Source of /verif/known_findings.json (committed).  Each entry: a genuine defect of the pinned tree that is
recorded rather than repaired; matched by property + atom predicate + signature regex (see harness/findings)."""
import json, re

E = []
def known(prop, id, atoms, sig, what, witness="", not_atoms=None):
    e = {"property": prop, "status": "known", "id": id, "atoms": atoms, "signature": sig, "what": what}
    if witness: e["witness"] = witness
    if not_atoms: e["not_atoms"] = not_atoms
    E.append(e)
def fixed(prop, id, commit, what):
    E.append({"property": prop, "status": "fixed", "id": id, "commit": commit, "signature": "^$", "what": what})

# ----------------------------------------------------------------------------- C01
RN = "the Relay entry point `node(id:)` selected by the client at the root is mis-planned (planner/sequential_planner.go:341-412 groupSelectionSetForNodeField keeps only inline fragments, re-attaches `id` outside its fragment, routes by fragment type only)"
for sig, what in [
  (r"^diff:MISSING (node|__typename|id|<field>)$", "requested keys missing under/next to root node()"),
  (r"^diff:EXTRA (node|id|<field>)$", "unrequested keys returned under root node()"),
  (r"^diff:(VALUE|NULL|TYPE|LISTLEN) ", "wrong value under root node()"),
  (r"^errors: INVALID SUBREQUEST: Cannot query field \"<x>\" on type \"<x>\"\.", "child fields of a root node() fragment are sent to a service that does not declare them"),
  (r"^errors: INVALID SUBREQUEST: Fields \"id\" conflict", "helper id collides under root node()"),
  (r"^errors: INVALID SUBREQUEST: Expected \{, found", "empty selection printed for root node()"),
  (r"^errors: (could not find|missing node key|node is not a map|received null|root value|entry in result)", "stitching under root node() fails"),
]:
    known("C01", "C01-root-node:" + re.sub(r"[^A-Za-z]+", "-", sig)[:40].strip("-"), ["root-node"], sig, RN + ": " + what,
          witness='{ node(id:"N1_1") { id ... on N1 { phone } } } on W0')
known("C01", "C01-root-node-no-root-steps", ["root-node", "root-node-fragments-0"], r"^errors: query plan contains no root steps$",
      "root node() without inline fragments is planned into zero root steps (the planner keeps only inline fragments); since fix ee77ed7 this is an error instead of a process-killing nil dereference",
      witness='{ node(id:"N1_1") { id } }')
fixed("C01", "C01-field-after-aliased-same-name-dropped", "86d53f0", "{ b: echo echo }: the plain field was discarded by the sanitizer because an earlier sibling with another alias has the same field name")
fixed("C07", "C07-no-root-steps-crash", "ee77ed7", "{ node(id:\"N1_1\") { id } }: nil pointer dereference at executor/depth_executor_manager.go:60 in an AsyncMapReduce worker killed the process")
fixed("C07", "C07-memberless-interface-crash", "932f200", "{ lonely { x } } with an interface nobody implements: index out of range at planner/sanitize_selection_set.go:135 killed the process")
fixed("C07", "C07-null-batch-element", "ba943c5", "body [null]: nil pointer dereference at requests/request.go:117 inside the handler")
fixed("C07", "C07-multipart-path-index-only", "36bd45b", "multipart map path \"0\" in batch mode: index out of range at requests/request.go:159")
fixed("C07", "C07-multipart-batch-index-out-of-range", "36bd45b", "multipart map path 9.variables.f with fewer operations: index out of range at requests/request.go:167")
fixed("C07", "C07-multipart-negative-list-index", "36bd45b", "multipart map path variables.l.-1: index out of range [-1] at requests/request.go:199")
fixed("C03", "C03-node-field-lost", "cfb9a93", "a service without node(id:) merged after services with it removed Query.node from the gateway schema (order dependent)")
fixed("C05", "C05-field-signature-conflicts-accepted", "a4cb434", "shared (input) type fields declared with different type / nullability / list wrapper / argument name, type or default were merged silently, result order dependent")
fixed("C09", "C09-long-batch-answer-crash", "8266110", "downstream batch answer with one element too many: index out of range at queryer/multiop_queryer.go:159 killed the process")
fixed("C09", "C09-short-batch-answer-masked", "8266110", "downstream batch answer one element short or empty: nil results returned with nil error, failure masked")
fixed("C09", "C09-missing-data-masked", "a6df212", "downstream answer {} or {data:null} without errors was merged as an empty result with an empty errors list")
fixed("C01", "C01-var-only-in-directive", "c9e793a", 'query($s:Boolean!){ n1s { name @skip(if:$s) } }: a variable used only in @skip/@include was neither declared in the sub-request header nor forwarded (header and variable list were built from field arguments only); the service answered Variable "$s" is not defined')
fixed("C01", "C01-var-default-lost", "3d1acbb", "query($v0:Int=3){ echo(x:$v0) } sent without variables: the sub-request header is synthesised from the schema and only provided values were forwarded, so the client's declared default never reached the service (its own argument default was used, or a required argument was reported missing)")
known("C01", "C01-alias-is-id", ["alias-is-id"], r"^(errors: INVALID SUBREQUEST: Fields \"id\" conflict|diff:MISSING (id|<field>)$)",
      "an alias named `id` on another field collides with the injected helper id", witness="{ n1s { id: name } }")
known("C01", "C01-id-aliased", ["id-aliased"], r"^errors: could not find the id for elements in target list: map\[…\]$",
      "when the client aliases `id` the planner adds no helper id and the executor cannot find the id", witness="{ n1s { a: id phone } }")
fixed("C01", "C01-id-with-hash", "fa4d884", "entity ids containing # (N1#1): the insertion-point encoding field:index#id was split at every #, the id was dropped and every child step below such an entity failed with could not find id in path")
fixed("C01", "C01-abstract-fragment-inside-object", "0a0fc43", "{ n1s { ... on Node { id } } } and { leafs { ... on IMid { b } } }: the __typename the planner injects into a fragment on an interface or union was registered for scrubbing under the abstract type name only and leaked into the answer")
fixed("C01", "C01-mixed-union-list-not-stitched", "b3a82f6", "{ us { ... on N1 { calc } } } with us answering [N1, N4, N1]: FindInsertionPoints gave up on the whole list at the first entry without id (a member type the client did not select), no entry was stitched and the field came back empty without an error")
known("C01", "C01-list-of-lists", ["list-of-lists"], r"^errors: entry in result wasn't a map$",
      "FindInsertionPoints does not descend into nested lists: a field of another service below a list of lists fails the operation (the scrubbing half of this finding - the whole list dropped, or answered with the planner's helper id - is repaired, 5d01db3 / 350bf7f)", witness="{ grid { phone } } with grid: [[N1!]]")
fixed("C01", "C01-list-of-lists-not-scrubbed", "350bf7f", "{ grid { calc } } with grid: [[N1!]]: ScrubFields.clean looked at list entries only when they were objects; the list of lists was dropped from the answer as 'nothing left' (and, once null entries count as content, answered with the helper id inside)")
fixed("C01", "C01-interface-field-empty-fragment", "f1e91e2", "{ named { ... on N3 { size } } } with N3.size owned by another service, and { things { __typename } }: an interface-typed field was rewritten into one fragment per implementation, implementations with nothing selected at the routed service got fragments with empty selection sets, which print as invalid GraphQL (Expected {, found })")
known("C01", "C01-typename-aliased-in-interface-field", ["interface-field", "typename", "alias"], r"^diff:(MISSING <field>|EXTRA __typename)$",
      "inside an interface-typed field whose selection is rewritten into per-type fragments an aliased __typename is replaced by the plain helper: the alias key is missing and __typename appears instead (before fix f1e91e2 these operations failed with an invalid sub-request)",
      witness="{ named { a: __typename ... on N3 { size } } }")
known("C01", "C01-explicit-id-on-interface-next-to-fragment", ["interface-field-owned-per-implementation", "explicit-id", "frag-inline-typed"], r"^diff:MISSING id$",
      "an interface that declares id itself: the client's id selected on the interface next to a per-type fragment is treated like the helper id the planner puts into that fragment and scrubbed for that type (a repair that skips the registration when a sibling selects the field breaks TestUnionPlanUnionPartialScrubFields: the sibling test looks into the fragments of other types too)",
      witness="{ usrs { ... on UA { uname } id } }")
known("C01", "C01-conditional-explicit-typename-in-union-field", ["dir-on-fragment", "union-field", "typename"], r"^errors: could not find the id for elements in target list: map\[…\]$",
      "the client's own __typename inside a fragment with @skip / @include on the union of its field, next to a fragment on a member with fields of another service: the planner takes the conditional __typename for the one it needs and adds no unconditional helper; when the condition takes it away the entries arrive empty and the executor gives up (the __typename twin of C01-conditional-explicit-id-leaks; what is left of the union part after 491167a / 160d54d; visible with >=3 fields only, i.e. in the thorough tier)",
      witness="{ us { ... @skip(if: true) { __typename ... on N1 { calc } } } }")
known("C01", "C01-node-typed-field", ["node-interface-field"], r"^(diff:(MISSING|EXTRA) (id|__typename|<field>)|errors: INVALID SUBREQUEST: Unknown type \"<x>\"\.)$",
      "a field whose declared type is the Node interface itself is planned like the root node() entry point: plain fields / aliases next to fragments are dropped or leak helpers",
      witness="{ anyNode { ... on N2 { title } id } }")
known("C01", "C01-shared-enum-extended", ["shared-enum-extended"], r"^errors: (INVALID SUBREQUEST: Value \"<x>\" does not exist in \"<x>\" enum\.|VARIABLE ERROR: input: variable\.\w+ \w+ is not a valid \w+)$",
      "an enum declared with different value sets by two services is merged into the union of the values; an argument value only one service knows is forwarded to the other service, which rejects it",
      witness="{ shade1(s: DARK) } with DARK declared only by the other service")
fixed("C01", "C01-object-key-reused", "411df3d", "{ n1s { b { c { p } } c { c { p } } } } on Wfan: executor.FindSelection resolved a path element depth-first through the whole selection set, so with one response key selecting objects at two positions child results were stitched to / looked for at the wrong place")
known("C01", "C01-var-named-id", ["var-named-id"], r"^errors: INVALID SUBREQUEST: Variable \"\$id\" of type \"<x>\" used in position expecting type \"<x>\"\.$",
      "a client variable called id collides with the $id the planner declares for node lookups: the child step declares it once, with the type of the client's use",
      witness="query($id:Int){ n2 { owner { calc(x:$id) } } }")
known("C01", "C01-root-node-no-root-steps-with-fragment", ["root-node"], r"^errors: query plan contains no root steps$",
      "root node() whose only fragment selects nothing but id on a type that has no other field is planned into zero root steps", witness='{ node(id:"N1_1") { ... on Tenant { id } } }')
known("C01", "C01-typename-aliased-in-union", ["union-field", "typename", "alias"], r"^errors: could not find the id for elements in target list: map\[…\]$",
      "when the client aliases __typename inside a union-typed field the planner adds no __typename helper of its own and extractID cannot recognise the 'only __typename' object of a non-selected member",
      witness="{ u { a: __typename ... on N1 { name } } }")
known("C01", "C01-alias-named-node", ["alias-is-helper-name"], r"^diff:MISSING node$",
      "a root field aliased `node` is treated like the Relay lookup by the executor's result handling", witness="{ node: leafs { __typename } }")
fixed("C01", "C01-named-fragment-reused", "bbfbc78", "{ n2 { ...F } b: n2 { ...F } } fragment F on N2 { owner { calc } }: sanitizeSelectionSet rewrote the shared fragment definition on first use; the second spread saw the injected helper as client-selected, did not register it for scrubbing and the client got id / __typename back")

fixed("C04", "C04-node-shaped-field-of-other-type-unrouted", "d08dc60", "type RootQuery { node(id: ID!): Node rbs: [RB!]! } of a service that names its root types itself (set Wroots), or type Tree { node(id: ID!): Node }: TypeURLMap.SetFromSchema skipped every field with the shape of the Relay lookup, on whatever type, so a field of the merged schema had no route")
fixed("C06", "C06-unconditional-mutation-root-dropped", "ac99505", "mutation ($v: Boolean!) { ... @include(if: $v) { incr(by: 1) } incr(by: 1) } with v = false, mutation { incr(by: 1) @skip(if: true) incr(by: 1) }: the owner received incr under the condition of the first selection only and executed nothing - an unconditionally selected mutation root field ran zero times")
fixed("C01", "C01-list-of-nulls-pruned", "5d01db3", "{ maybeN1s { name } } with maybeN1s == [null, null, null] (a nullable list of entities of another service whose entries are all null): scrubbing the helper fields dropped the list because no entry had content left, the client got {} instead of the list of nulls")
fixed("C01", "C01-same-key-conditional-then-unconditional", "ac99505", "{ n1s { name @skip(if: true) name } }, { n2 @skip(if: true) { title } n2 { title } }, { n1s { ... @skip(if: true) { name } name } }: the sanitizer merged the selections of one response key under the directives of the first of them, the unconditional later selection went away with the skipped one (answer {} instead of the names)")
known("C01", "C01-same-key-two-conditions", ["same-key-two-conditions"], r"^diff:(MISSING|EXTRA) <field>$",
      "one response key selected twice at one level, each time under a condition of its own (@skip(if: $a) ... @include(if: $b)): the merged field keeps the directives of the first selection, so the second one's condition is ignored (its selections come along when the first is taken, the field is missing when only the second is). Not expressible as one directive on one field; what is left after ac99505, which repairs the case that one of the two is unconditional",
      witness="query ($a: Boolean!, $b: Boolean!) { n1s { n2s @skip(if: $a) { title } n2s @include(if: $b) { owner { phone } } } } with a = b")
known("C01", "C01-same-key-across-fragment-explicit-id", ["same-response-key-across-fragment", "explicit-id"], r"^diff:MISSING id$",
      "one composite field selected twice under one response key, once directly and once through a fragment, with `id` requested explicitly in only one of the two: the helper `id` the planner adds for the other one is registered for scrubbing at the shared path and the client's own `id` is removed (sibling selections without a fragment are merged since fix 7dafd02)",
      witness="{ n2 { id } ... { n2 { title } } }")
known("C01", "C01-same-key-across-fragment-explicit-typename", ["same-response-key-across-fragment", "typename"], r"^diff:MISSING (__typename|<field>)$",
      "same defect as C01-same-key-across-fragment-explicit-id for the other helper: an abstract-typed field selected twice under one response key, once with the client's own __typename and once through a fragment; the helper __typename added for the second one is registered for scrubbing at the shared path and removes the client's (an object left empty by that is pruned, the whole field is then missing)",
      witness="{ named { __typename } ... { named { ... on N1 { calc } } } }")
fixed("C01", "C01-same-response-key-siblings-not-merged", "7dafd02", "{ n1s { name } n1s { phone } }: the sanitizer kept the first of two sibling fields with one response key and dropped the other's selections (phone missing, no error)")

known("C01", "C01-conditional-explicit-id-leaks", ["dir-on-fragment", "explicit-id"], r"^diff:EXTRA id$",
      "an `id` the client selects inside a fragment with @skip / @include on a Node type: the planner needs an id it can rely on for stitching and asks for a second, unconditional one which it cannot scrub (the client may be owed its own); when the fragment is switched off the id is in the answer although nobody asked for it (before fix 34b5f2f the fragment's directive was dropped altogether and everything inside it was returned)",
      witness="{ n1s { ... @skip(if: true) { id } } }")
for a in ["interface-field", "root-node", "node-interface-field"]:   # union fields: repaired by 491167a and 160d54d
    known("C01", "C01-directive-on-fragment-in-abstract-field:" + a, ["dir-on-fragment", a],
      r"^(errors: (INVALID SUBREQUEST: (Fragment cannot be spread here|Cannot query field \"node\" on type|Unknown type)|unable to find type  in schema)|diff:EXTRA (<field>|__typename)$)",
      "a fragment that carries @skip / @include around per-type fragments inside a field of an interface or Node type (and under the root node lookup): the rewriting of interface selections copies the inner per-type fragments into the fragment of every possible type and produces fragments the receiver cannot accept, or drops the directive (fragments on unions and plain selections inside such a fragment were repaired by dec1e2a, 491167a, 160d54d)",
      witness="{ named { ... @skip(if: true) { ... on N1 { id } } } }")
fixed("C01", "C01-fragment-directives-dropped", "34b5f2f", "{ n1s { ... @skip(if: true) { name } phone } } returned name; mutation ($inc: Boolean!) { ... on Mutation @include(if: $inc) { incr(by: 1) } } with inc=false executed the mutation: a fragment on an object type was dissolved into its parent and its directives were dropped")
fixed("C16", "C16-directives-on-gateway-answered-fields", "8789bc3", "{ __type(name: \"N1\") { kind @skip(if: true) name } } answered kind, { __type(name: \"N1\") { ... @skip(if: true) { kind } name } } too, { ... @skip(if: true) { __typename } echo } answered __typename: @skip/@include were never applied to the fields the gateway answers itself (introspection, root __typename)")
fixed("C07", "C07-variable-in-custom-scalar-literal", "2415b59", "query ($a: String) { when(at: [$a]) } with `when(at: DateTime)`: a list or object literal for a custom scalar has no expected types inside; formatting the sub-request dereferenced a nil type in a worker goroutine (the process died); when(at: {k: $a}) left $a undeclared in the sub-request (C02)")
fixed("C02", "C02-interface-fragment-nested-siblings", "dec1e2a", "{ things { ... on I { a } } } (a fragment on the interface of its field): the fragment of the second possible type contained the fragment of the first (... on IB { a ... on IA { a } }), the service rejected the sub-request: Fragment cannot be spread here as objects of type IB can never be of type IA")
fixed("C01", "C01-untyped-fragment-in-union-field", "491167a", "{ us { ... { __typename } } } with a union-typed field: answered with 'unable to find type  in schema' (the empty type condition was looked up in the schema)")
fixed("C01", "C01-directive-on-fragment-on-union", "160d54d", "{ us { ... on U @skip(if: true) { __typename } } } and { us { ... @skip(if: true) { __typename } } } answered __typename: the fragment on the abstract type of its field is dissolved into the parent and its directives were dropped")
fixed("C07", "C07-response-key-node-below-child-step", "fb3ac71", "{ n2 { owner { node: n2s { title } } } } (also a stitched type with a real field called node, Relay edges): the insertion points below the key node were looked up in the child step's selection set, which starts with the planner's own node(id: $id) wrapper; the wrapper has no type: nil dereference at executor/result.go:150 in a worker goroutine, the process died (reported by a round-6 agent on the unchanged tree)")
fixed("C09", "C09-upload-answer-without-data", "e01711f", "a service answering a multipart (upload) sub-request with {}, {\"data\": null} or an empty errors list and no data: the gateway returned {\"data\":{}} without errors (the guard of a6df212 covered the JSON batch path only; reported by a round-6 agent)")
fixed("C14", "C14-cache-key-ignores-variable-definitions", "db0edef", "query T($n: String! = \"Query\") { __type(name: $n) { name } } then query T($n: String!) {...} without a value: one cache key, the cached step answered with the first operation's default; likewise two operations declaring a variable used inside a custom scalar literal with different types (reported by round-6 agents)")
fixed("C18", "C18-duplicate-start-id", "1999e44", "a start with an id that is still in use overwrote the entry of the running subscription: nothing could stop it any more, its upstream connection and goroutines leaked (reported by a round-6 agent)")
fixed("C17", "C17-upstream-error-object-swallowed", "2603204", "{\"type\":\"error\",\"id\":\"1\",\"payload\":{\"message\":\"boom\"}} from the service ended the subscription silently, the client never heard of the error (only a list payload was forwarded; reported by a round-6 agent)")
fixed("C05", "C05-node-lookup-with-extra-argument", "03099a6", "Query.node(id: ID!, lang: String = \"en\"): Node in one service and the plain lookup in another: accepted silently in one order of the service list, refused in the other")
fixed("C15", "C15-cut-off-type-reference", "b3ea80b", "type Query { deepest: [[[[Int!]!]!]!]! }: deeper than the seven ofType levels of the introspection query; the cut-off reference was dereferenced in a worker goroutine of the introspector, the process died at start-up (reported by a round-6 agent)")
fixed("C18", "C18-start-without-payload", "6ba8b48", "{\"type\":\"start\",\"id\":\"1\"} without payload: nil dereference on the connection's goroutine (reported by a round-6 agent)")
fixed("C17", "C17-null-event", "ab271c9", "subscription { n1Maybe { name phone } } with an event whose root field is null: the steps of the other services have no insertion point, the executor was called with a plan without root steps and the client received 'query plan contains no root steps' (reported by a round-6 agent)")
fixed("C13", "C13-introspection-list-order", "9452942", "{ __schema { types { kind } } } / { types { n: name } }: the lists under __schema were sorted by the `name` key of the answer only; without it they came back in map iteration order")
fixed("C19", "C19-literal-forwards-variable", "fe55c44", 'mutation ($f: Upload) { upload(f: $f) plain1(s: "f") }: the step variable list was filled with the raw text of every argument value; a literal reading like a variable name made the step forward that variable (here: the file) to a service which does not use it')
fixed("C15", "C15-default-named-roots-lost", "5e01f44", "schema { query: RootQuery mutation: Mutation }: the reconstruction printed a schema block with the renamed root only and lost the default-named Mutation (Subscription) root")
fixed("C02", "C02-variable-type-last-position-wins", "159f8ec", "mutation ($n: Int!) { incr(by: $n) mkN1 { calc(x: $n) } }: a variable used at an Int! and an Int position of one sub-request was declared with the type of the position visited last (Int), the service rejected the request")
# ----------------------------------------------------------------------------- C02 (same defect classes seen at the plan / sub-request level)
C02 = [
 ("root-node", ["root-node"], [r"^plan-drops-client-field: (__typename|node|id|<field>)$", r"^subrequest-invalid: Cannot query field \"<x>\" on type \"<x>\"\.", r"^subrequest-invalid: Fields \"id\" conflict",
                r"^plan-adds-non-helper-field$", r"^helper-not-registered-for-removal: (id|__typename)$", r"^subrequest-invalid: Expected \{, found"], RN),
 ("alias-is-id", ["alias-is-id"], [r"^subrequest-invalid: Fields \"id\" conflict", r"^plan-drops-client-field: <field>$"], "alias named id collides with the injected helper id"),
 ("node-typed-field", ["node-interface-field"], [r"^subrequest-invalid: Expected \{, found", r"^plan-adds-non-helper-field$", r"^subrequest-invalid: Unknown type", r"^plan-drops-client-field: ", r"^helper-not-registered-for-removal: "],
                "fields typed as the Node interface are rewritten into per-type fragments that may be empty or name types the receiver lacks"),
 ("memberless-interface", ["memberless-abstract"], [r"^plan-drops-client-field: <field>$", r"^helper-not-registered-for-removal: __typename$"],
                "the selection on an interface nobody implements is replaced by an unregistered __typename only (observable only at the plan level: the field's value can only be null)"),
 ("shared-enum-extended", ["shared-enum-extended"], [r"^subrequest-invalid: Value \"<x>\" does not exist in \"<x>\" enum\.$", r"^subrequest-variable-error: "], "enum value known to one service only is forwarded to the other"),
 ("var-named-id", ["var-named-id"], [r"^subrequest-invalid: Variable \"\$id\" of type", r"^variable-value-differs: "], "client variable named id collides with the stitching variable"),
]
C02.append(("typename-aliased-in-interface-field", ["interface-field", "typename", "alias"], [r"^plan-drops-client-field: __typename$", r"^helper-not-registered-for-removal: __typename$"],
            "the plan-level view of C01-typename-aliased-in-interface-field: inside an interface-typed field whose selection is rewritten into per-type fragments the client's aliased __typename is replaced by the plain helper, which is registered for no object type (witness { named { a: __typename ... on N3 { size } } })"))
for a in ["interface-field", "root-node", "node-interface-field"]:
    C02.append(("directive-on-fragment-in-abstract-field:" + a, ["dir-on-fragment", a],
                [r"^planner-error: could not find location for field ", r"^planner-error: unable to find type  in schema$", r"^subrequest-invalid: (Fragment cannot be spread here|Cannot query field \"node\" on type|Unknown type)",
                 r"^plan-adds-non-helper-field$", r"^plan-drops-client-field: ", r"^helper-not-registered-for-removal: "],
                "a fragment with @skip / @include inside an interface-, union- or Node-typed field or under the root node lookup is not expected by the rewriting of abstract selections (see the C01 entry)"))
for name, atoms, sigs, what in C02:
    for i, sg in enumerate(sigs):
        known("C02", "C02-%s-%d" % (name, i), atoms, sg, what)

known("C05", "C05-shared-type-id-in-one-service-only", ["conflict-shared-type-id-in-one-only"], r"^(conflicting set accepted silently|merged types/fields depend on the order of the service list)$",
      "a plain (non-Node) type declared as {id, name} by one service and {name} by another is neither identical nor disjoint, yet it is accepted: id is left out of the overlap accounting for every type (mergeCustomObjectFields), and the merged type has or lacks id depending on the order. Not repaired: counting id breaks the repository's own TestMergeSupportsSpreadInterfaces, which relies on it",
      witness="type P {id: ID! name: String} / type P {name: String}")
known("C03", "C03-shared-type-id-in-one-service-only", ["conflict-shared-type-id-in-one-only", "conflicting-set"], r"^merged-schema MISSING field type$",
      "the same defect as C05-shared-type-id-in-one-service-only seen from C03: the set {id, name} / {name} is accepted, and in one order of the service list the merged type lacks the id field one service declares",
      witness="type PI2 {id: ID! name: String} / type PI2 {name: String}, the service that declares id listed first")
fixed("C04", "C04-node-shaped-fields-unrouted", "f39394f", "Mutation.archive(id: ID!): Node / Query.lookup(id: ID!): Node: any root field with the shape of the Relay lookup was left out of the routing table")
fixed("C01", "C01-null-entries-in-lists", "ed593f4", "a child step below a list that contains null entries ([U] with a null) failed with 'entry in result wasn't a map'")
fixed("C09", "C09-empty-list-for-object-crash", "61c2700", "service answers an object field on a child-step path with []: index out of range at executor/result.go:241 in a worker goroutine")
# ----------------------------------------------------------------------------- C19
fixed("C19", "C19-upload-read-once", "819c970", 'map {"0":["variables.l.0","variables.l.1"]} and mutation($f:Upload){ upload(f:$f) upload1(f:$f) }: one uploaded file used at two paths, by two root fields or by two services was one reader consumed by the first multipart re-encoding; every later place received an empty file')
fixed("C19", "C19-shared-variable-tree-mutated", "4208c9a", "mutation($o:UpIn){ uploadIn(in:$o) uploadIn1(in:$o) } with a file at variables.o.f: extractFiles nulled nested uploads inside the variable values shared with the request to the other service (second consumer got null); built at the same time the process died with 'concurrent map iteration and map write' at queryer/files.go:63")

# ----------------------------------------------------------------------------- C15
fixed("C15", "C15-deprecations-dropped", "fc6482b", "a service's @deprecated fields and enum values: isDeprecated / deprecationReason were asked for and decoded but never applied, the reconstruction had no deprecations")
fixed("C15", "C15-defaults-dropped-or-mangled", "aca1efb", "echo(x: Int = 7), directive @tag(name: String! = \"x\"), input In { c: Color = RED s: String = \"s\" o: In2 = {a: 1} }: defaults of field and directive arguments were never set; defaults of input fields were taken as JSON values of the named type instead of GraphQL literals (strings double quoted, enum and object defaults turned into strings)")
fixed("C15", "C15-directive-args-dropped", "74761fb", "json tag `arg` instead of `args`: custom directives of a remote schema were reconstructed without arguments")

# ----------------------------------------------------------------------------- C16
fixed("C16", "C16-typename-inside-introspection", "3bb1ecf", '{ __type(name:"N1") { __typename kind } }: __typename selected inside introspection objects was answered with null or left out')
fixed("C16", "C16-schema-description", "aa7147c", "{ __schema { description } }: the key was missing")
fixed("C16", "C16-directive-isRepeatable", "6f0dd25", "{ __schema { directives { isRepeatable } } }: the key was missing")
fixed("C16", "C16-introspection-mixed-with-data", "a13b1aa", "{ __schema { queryType { name } } n1s { id } }: the gateway answered the introspection part only and dropped the data fields")
fixed("C01", "C01-root-typename", "a13b1aa", "{ __typename echo } / mutation { __typename incr(by:1) }: the operation's own __typename was planned as a step for the internal pseudo service and sent to it over HTTP (parse \"%#!\": invalid URL escape), the whole operation failed")
fixed("C16", "C16-deprecation-reason-default", "39f8d88", "type Dep { older: Int @deprecated }: deprecationReason was empty instead of the directive's default reason")
fixed("C16", "C16-second-gateway-loses-defaults-and-deprecations", "aca1efb", "a second gateway that introspects this gateway rebuilt a schema without argument defaults and deprecations and with mangled input defaults (the remote-introspection defects fixed by fc6482b and aca1efb)")
fixed("C16", "C16-kind-guards", "b1fec98", "fields/interfaces/enumValues/inputFields answered with lists for kinds that do not have them; a second gateway failed with 'Field X.y can only be defined once'")
fixed("C16", "C16-type-by-variable", "70087a8", "__type(name: $n) looked up the variable's name")
fixed("C16", "C16-interface-possible-types", "cacf763", "possibleTypes of interfaces was null")
fixed("C16", "C16-input-field-default", "baffcba", "defaultValue missing from inputFields")

fixed("C14", "C14-cache-key-ignores-operation-type", "e7018ac", "history { both(x:1) } ; mutation { both(x:1) } on a caching planner: the second request was executed with the first one's plan (mutation sent as query)")
fixed("C14", "C14-cache-key-ignores-fragment-type-condition", "05e0e67", "history { things { ...F } } fragment F on IA { a } ; same document with fragment F on IB on a caching planner: the formatter prints a named fragment's name and body but not its type condition, so the second request was executed with the first one's plan")
fixed("C18", "C18-close-unlocks-foreign-mutex", "f91c094", "stop racing an upstream complete: Close ignored TryLock's result and unlocked the mutex Listen's clean-up held (fatal error: sync: unlock of unlocked mutex), 1 preemption")
fixed("C18", "C18-close-send-on-closed-channel", "f91c094", "stop or terminate racing an upstream complete/error/disconnect: Close sent on closeCh after Listen had closed it (panic in the go Close() goroutine)")
fixed("C18", "C18-reader-send-on-closed-channel", "7351ec0", "upstream event racing a stop: the Subscribe reader sent the payload on respCh after Listen closed it; only the deferred send is covered by recover")
fixed("C18", "C18-cleanup-skipped-on-abrupt-disconnect", "9f1e28e", "client closes the socket abruptly: the handler's clean-up returned at the failing close-frame write, leaking the connection, listeners and upstream connections")
fixed("C18", "C18-interleaved-frames", "6941503", "heartbeat firing while a listener writes a data frame: header/payload of two frames interleaved on the client connection")
fixed("C17", "C17-cached-plan-stripped", "4b4f97d", "two subscriptions with the same selection on a caching planner: the second one lost its child steps (fields of other services missing from every event)")
# ----------------------------------------------------------------------------- C13
fixed("C13", "C13-scrub-map-order", "20ec7ca", '{ node(id:"N1_1") { ... on N1 { phone } } } with a non-default iteration order at the range over type names in ScrubFields.clean: the helper id stayed in the answer (entries for Node and for N1 at one path, the first one the map yielded was applied and the loop stopped)')

json.dump(E, open('/verif/known_findings.json', 'w'), indent=1, ensure_ascii=False)
print(len(E), "entries")
