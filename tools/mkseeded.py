#!/usr/bin/env python3
"""Builds /verif/seeded/<id>/ from the sub-agents' deliveries under /tmp/mut and the log of tools/runmutants.sh.
Only changes whose three claims were confirmed (suite passes with the change, demonstration fails with it and passes
without it) are kept."""
import json, os, re, shutil, sys, glob

log = open(sys.argv[1]).read() if len(sys.argv) > 1 else open('/var/tmp/mutants2.log').read()
extra = {}
if len(sys.argv) > 2:
    extra = json.load(open(sys.argv[2]))   # {"C07-b": ["C08"], ...} additional detecting checks found by hand
blocks = re.split(r'^######## ', log, flags=re.M)[1:]
props = {json.loads(l)['id']: json.loads(l) for l in open('/verif/properties.jsonl')}
os.makedirs('/verif/seeded', exist_ok=True)
summary = []
for b in blocks:
    head, *rest = b.split('\n')
    pid, k = head.split()
    k = k.replace('MUTANT_', '')
    body = '\n'.join(rest)
    without = re.search(r'^without patch: (.*)$', body, re.M)
    withp = re.search(r'^with patch:\s+(.*)$', body, re.M)
    suite = re.search(r'^suite with patch: (.*)$', body, re.M)
    confirmed = bool(without and withp and suite and without.group(1).startswith('ok') and 'FAIL' in withp.group(1)
                     and (suite.group(1).strip() == 'all ok' or 'TestSubscribe' in suite.group(1)))
    checks = re.findall(r'^(C\d+) rc=(\d+) violations=(\d+)[ \t]*(.*)$', body, re.M)
    detected = [c for c, rc, v, _ in checks if rc == '1']
    detected += extra.get(f'{pid}-{k}', [])  # keyed by the delivered name
    src = f'{os.environ.get("MUTROOT", "/tmp/mut")}/{pid}/MUTANT_{k}'
    # round 2 deliveries are again named MUTANT_a/b: SEEDED_RENAME=a:c,b:d keeps round 1 in place
    ren = dict(x.split(':') for x in os.environ.get('SEEDED_RENAME', '').split(',') if x)
    dst = f'/verif/seeded/{pid}-{ren.get(k, k)}'
    if not confirmed:
        summary.append((pid, k, 'NOT CONFIRMED', detected))
        continue
    if os.path.isdir(dst):
        shutil.rmtree(dst)
    os.makedirs(dst)
    shutil.copy(f'{src}/patch.diff', dst)
    # the patch as delivered was written against an older HEAD: keep a version rebased onto the current one
    wt = f'{os.environ.get("MUTROOT", "/tmp/mut")}/{pid}'
    import subprocess
    subprocess.run(['git', '-C', wt, 'reset', '-q', '--hard'])
    if subprocess.run(['git', '-C', wt, 'apply', '--check', f'{src}/patch.diff'], capture_output=True).returncode != 0:
        if subprocess.run(['git', '-C', wt, 'apply', '-3', f'{src}/patch.diff'], capture_output=True).returncode == 0:
            d = subprocess.run(['git', '-C', wt, 'diff', 'HEAD'], capture_output=True, text=True).stdout
            shutil.move(f'{dst}/patch.diff', f'{dst}/patch.as-delivered.diff')
            open(f'{dst}/patch.diff', 'w').write(d)
        subprocess.run(['git', '-C', wt, 'reset', '-q', '--hard'])
    for f in glob.glob(f'{src}/**/*', recursive=True):
        if os.path.isfile(f) and (f.endswith('.txt') or f.endswith('_test.go') or f.endswith('README.md')):
            shutil.copy(f, f'{dst}/' + os.path.basename(f).replace('_test.go', '_test.go.txt') if f.endswith('_test.go') else f'{dst}/' + os.path.basename(f))
    readme = open(f'{src}/README.md').read() if os.path.exists(f'{src}/README.md') else ''
    first = [c for c in checks if c[0] == pid]
    meta = {
        'property': pid,
        'title': props[pid]['title'],
        'origin': 'written by an independent sub-agent that saw only the property text and a scratch worktree',
        'needs_to_manifest': ' '.join(readme.split('\n\n')[1:3])[:900] if readme else '',
        'confirmed_in_scratch_worktree': {
            'existing_suite_with_change': suite.group(1).strip(),
            'demonstration_with_change': withp.group(1).strip()[:200],
            'demonstration_without_change': without.group(1).strip()[:200],
            'how': 'tools/vetmutant.sh: git apply patch.diff in /tmp/mut/%s (at /repo HEAD); go test -vet=off -count=1 ./...; demo copied into its package and run with and without the patch' % pid,
        },
        'checks_run': [{'check': c, 'tier': 'quick', 'exit': int(rc), 'violations_printed': int(v), 'first': msg[:200]} for c, rc, v, msg in checks],
        'detected_by': sorted(set(detected)),
        'applied_how': 'tools/runmutants_wt.sh: git apply patch.diff in the scratch worktree /tmp/mut/<id> (moved to /repo HEAD); VERIF_REPO=<worktree> ./check <id> quick; git reset --hard. Equivalent on /repo itself: tools/trymutant.sh patch.diff <id>',
    }
    json.dump(meta, open(f'{dst}/meta.json', 'w'), indent=1)
    summary.append((pid, k, 'kept', sorted(set(detected))))
for s in summary:
    print(*s)
