#!/bin/bash
# usage: recheck_seeded.sh <seeded dir name...>   re-runs, for each kept seeded change, the checks its meta.json lists
# under detected_by (or its own property's check) against a scratch worktree at /repo HEAD with the change applied.
export GOFLAGS=-mod=mod GOPROXY=off GOSUMDB=off GOTOOLCHAIN=local
for name in "$@"; do
  d=/verif/seeded/$name; id=${name%%-*}; WT=${MUTROOT:-/tmp/mut}/$id
  git -C $WT reset -q --hard; git -C $WT checkout -q --detach "$(git -C /repo rev-parse HEAD)"
  git -C $WT apply $d/patch.diff 2>/dev/null || git -C $WT apply -3 $d/patch.diff 2>/dev/null || { echo "$name PATCH-DOES-NOT-APPLY"; git -C $WT reset -q --hard; continue; }
  if ! (cd $WT && go build ./... >/dev/null 2>&1); then echo "$name DOES-NOT-BUILD"; git -C $WT reset -q --hard; continue; fi
  checks=$(python3 -c "import json;m=json.load(open('$d/meta.json'));print(' '.join(m.get('detected_by') or [m['property']]))")
  for c in $checks; do
    EV=/var/tmp/ev_re/$name-$c; mkdir -p $EV
    OUT=$(VERIF_REPO=$WT VERIF_EVIDENCE_ROOT=$EV /verif/check $c quick 2>&1); RC=$?
    echo "$name $c rc=$RC violations=$(echo "$OUT" | grep -c '^VIOLATION')"
  done
  git -C $WT reset -q --hard
done
