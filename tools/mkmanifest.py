#!/usr/bin/env python3
"""Regenerates /verif/MANIFEST.json from the table below (kept in one place so the manifest is always valid)."""
import json, os

ENGINE_B = "Engine B `sched`: the real sources of /repo's working tree are rewritten by cmd/vrewrite (goroutines, channels, select, sync, time, map ranges, ws dialer) onto the cooperative runtime /verif/vrt and every schedule within the stated bound is enumerated depth-first by harness/explore"
ENGINE_A = "Engine A `enum`: bounded-exhaustive enumeration of inputs / faults / histories (base case plus bounded deviations) run through the real code in crash-isolating worker subprocesses and compared with boring reference models (harness/gqlref, schemacanon)"

CHECKS = {
 "C20": dict(engine="sched", cat="model_checking",
   technique="stateless model checking of the implementation: exhaustive DFS over all interleavings (state-cached, unbounded) of the rewritten AsyncMapReduce under a controlled scheduler",
   text="All interleavings of workers, reducer and caller of the real common.AsyncMapReduce for n<=3 (quick) / n<=5 (thorough) and every success/error pattern are enumerated; invariants (mapped once, reduced once, never overlapping, returns after all reductions, all errors returned, no goroutine left, no fatal) are checked on each execution. Unbounded in schedule space for these n; the right level because the property is a pure concurrency contract of a 50-line helper.",
   note="Trusted: vrewrite rewrite rules, vrt channel/WaitGroup semantics (self-tests), DRF assumption behind state caching (cross-checked by an uncached preemption-bounded run).",
   ref="DESIGN.md §6 C20"),
 "C11": dict(engine="sched", cat="model_checking",
   technique="stateless model checking of the implementation: exhaustive DFS (state-cached, unbounded) over all completion orders of the concurrent chunk requests of the rewritten MultiOpQueryer.Query, crossed with an exhaustive small scope of (N, m, fault)",
   text="For every N<=7, m<=4 (quick; N<=9, m<=5 thorough), no fault and every single failing chunk (transport error, status 500, non-JSON body), all interleavings of the chunk workers, the reducer and the caller of the real MultiOpQueryer.Query are enumerated against an in-memory transport; per execution: exactly N results, result i answers request i, each request in exactly one call, no call larger than m, a failing call yields an error and no partial slice, no deadlock/fatal/leak.",
   note="Trusted: vrewrite rules, vrt semantics, the in-memory RoundTripper as the only environment; scope bounded by N, m and one fault per scenario.",
   ref="DESIGN.md §6 C11"),
 "C01": dict(engine="enum", cat="exploration",
   technique="bounded-exhaustive enumeration (small-scope model checking of the input space): every selection tree with <=K fields and every single decoration, over base worlds plus bounded world/data/config deviations, run through the real Gateway.Handler against evaluating in-memory services and compared with a single-server reference evaluator",
   text="Exhaustive within stated bounds (K<=5 on the base worlds, K<=4 with one world or data atom, every single operation decoration at every position with K<=4, 5 gateway configurations quick / 8 thorough): data must equal the reference after the symmetric empty-object pruning and errors must be empty. Failures are clustered by (semantic atoms of the case, abstracted signature) and only clusters listed in known_findings.json are tolerated.",
   note="Trusted: harness/gqlref evaluator, canonical data model, gqlparser parser/validator, worker plumbing. Inputs outside the bounds (more fields, more simultaneous atoms) are not covered.",
   ref="DESIGN.md §6 C01"),
 "C02": dict(engine="enum", cat="exploration",
   technique="bounded-exhaustive enumeration of (schema set, operation) pairs; each operation is translated by the real planner and the translation is checked at the plan level and at the receiving in-memory services with the validator run against the receiver's own schema",
   text="For every operation in the bound (all selection trees <=K fields, K<=5 on base worlds, K<=4 with one world atom, K<=3 with two, plus all single decorations) every sub-request must parse and validate against the receiving service's own schema, variables must coerce and carry the client's value or default, the plan must cover every client field coordinate, add only id/__typename and register each added helper for removal; id and __typename are identified by response key (a helper is not the field the client selected under an alias) and a registration has to sit under an object type.",
   note="Trusted: gqlparser validator, coordinate abstraction (response path + field name), in-memory services. Data-independent.",
   ref="DESIGN.md §6 C02"),
 "C06": dict(engine="enum", cat="fault_enumeration",
   technique="exhaustive enumeration of mutation operations x delivery modes x every single downstream fault at every downstream call position, judged on the service request logs",
   text="All mutation operations with <=K fields (K=4 quick, 5 thorough; same field twice under aliases) on worlds with mutation roots on up to three services, for batch sizes {1,2,3000}, plain and caching planner (cold and warm), single and batch-of-two delivery, and every fault kind injected at every downstream call: each root field must be received by its owner exactly once (never more under faults), by no other service, under the mutation keyword, and follow-up lookups must be queries.",
   note="Trusted: request logs and counters of the in-memory services; single faults only.",
   ref="DESIGN.md §6 C06"),
 "C12": dict(engine="enum", cat="exploration",
   technique="bounded-exhaustive enumeration of (world, query) pairs each run under six datasets (list lengths 1/default/5/20, duplicate entities) with the number of batched calls per service compared against the real planner's level structure",
   text="For every query with <=K fields (K=5 quick, 6 thorough) on list-heavy worlds: HTTP calls per service <= plan levels containing the service, identical for list lengths 1..20, no identical id-only lookup twice in one batched call, and with duplicate entities the answer still equals the reference.",
   note="Operations through the root node() entry point are excluded (mis-planned, see C01 findings). One Query call = one HTTP call at batch size 3000.",
   ref="DESIGN.md §6 C12"),
 "C07": dict(engine="enum", cat="exploration",
   technique="exhaustive enumeration of request grammars (all byte strings up to a length over a JSON-structure alphabet, all JSON trees up to a node count, content types, multipart layouts over a path alphabet, valid operations on corner-case schemas) against the real handler in crash-isolating worker processes with a three-valued status reference; plus a race complement pass (client batches, also through the caching planner with entries expiring between rounds, free-running in a -race build: a data race on the request path is a crash waiting for its schedule and is reported as a violation)",
   text="Every body in the enumerated grammars must be answered (no panic: a worker death is attributed to the request in flight), with JSON carrying data and/or errors, with status 422 exactly when the request cannot be decoded and 200 when it is a standard well-formed shape (grey zone: either), and the gateway must still answer a canonical follow-up request correctly.",
   note="Trusted: the three-valued reference classifier in harness/a/c07.go; bounds: length<=5 (6 thorough) over an 11-symbol alphabet, JSON trees <=5 (6) nodes, maps with <=2 files x <=2 paths over 18 paths.",
   ref="DESIGN.md §6 C07"),
 "C09": dict(engine="enum", cat="fault_enumeration",
   technique="exhaustive fault enumeration: every fault kind of a 23-symbol alphabet at every (downstream call, batch position) of every operation in a bounded corpus (thorough: ordered pairs), run against the real gateway in crash-isolating workers",
   text="For every operation with <=3 fields on 14 (quick) worlds/configurations and every single fault position: process alive, well-formed envelope, failure signals yield non-empty errors, no value appears in data that no service returned (taint), and a follow-up request on the same gateway equals its reference; every downstream response body is closed (an unclosed body never releases its connection).",
   note="Hang detection is delegated to Engine B; root node() operations excluded; single faults (pairs in thorough).",
   ref="DESIGN.md §6 C09"),
 "C10": dict(engine="enum", cat="exploration",
   technique="exhaustive enumeration of single invalidating mutations (19 kinds at every position) of every valid operation in the bound, plus exhaustive injection of GraphQL error payloads at every downstream call position",
   text="Part 1: no invalid operation (by gqlparser on the merged schema, or unknown/ambiguous operation name) causes any downstream request; it is answered 200 with errors and data:null. Part 2: every downstream GraphQL error (unicode message, nested extensions, path, locations) injected at any call/position appears in the client's errors with equal message, extensions and path; an invalid operation is also sent as the unselected sibling of a valid one in the same document (the document is invalid as a whole: no downstream request, errors, data null).",
   note="Trusted: gqlparser validator as the definition of invalid; service request logs.",
   ref="DESIGN.md §6 C10"),
 "C19": dict(engine="enum", cat="exploration",
   technique="two parts, both exhaustive within bounds: (1) enumeration of multipart layouts (operation count x variable-tree shape x file map x contents x owning services) through the real handler, with the multipart requests received by the in-memory services re-parsed and compared; (2) stateless model checking of the rewritten sources for every layout that puts two file-carrying downstream requests in flight: all operation-grained schedules with <=1 (thorough <=2) preemption, sync.Pool modelled as a LIFO free list, same oracle per execution",
   text="For each of ~550 (quick) layouts: every service sub-request that declares the file variable is multipart and maps the same variable path to the same file name and bytes, sub-requests that do not use the variable carry no file, and data equals the reference (single-operation layouts).",
   note="Both engines run in one command; the schedule part's evidence is merged into evidence/C19.json under coverage.part_sched. One file variable with two consumers is a recorded finding.",
   ref="DESIGN.md §6 C19"),
 "C03": dict(engine="enum", cat="exploration",
   technique="bounded-exhaustive enumeration of schema sets (base + <=3 atoms from a 43-atom catalogue covering every type-system feature) x every permutation of the service list x both mergers, with the real merger called directly and its result compared fact-by-fact with the union of the inputs",
   text="For each of ~10^5 (quick) merges: the result is a valid schema, its canonical facts (types, kinds, fields, argument names/types/defaults, enum values, union members, implements, possible types, input fields, directive definitions, root types) equal the union of the services' facts, and every <=2-field operation of each service validates against it, as do the introspection operations; the conflicting sets of C05 are run too: a merge that succeeds must not have lost or overridden a declaration.",
   note="Trusted: schemacanon as the definition of schema equality (descriptions and applied directives excluded); gqlparser's SDL loader.",
   ref="DESIGN.md §6 C03"),
 "C04": dict(engine="enum", cat="exploration",
   technique="same exhaustive schema-set enumeration as C03 with an oracle on MergeResult.TypeURLMap computed from the services' SDL",
   text="Every root field routed to its unique declaring service, every non-id object field routed to a service that declares it, stitchable flag iff implements Node, routed URL set equals contributing services, no unrouted field - for every schema set, permutation and merger in the bound; also for gateways constructed through the real introspector with one service failing, and for every conflicting set of C05 that the merger accepts.",
   note="Ground truth = the services' own SDL.",
   ref="DESIGN.md §6 C04"),
 "C05": dict(engine="enum", cat="exploration",
   technique="exhaustive enumeration of (mergeable schema set, single conflict atom out of 40) x all permutations of the service list against the real merger",
   text="Every conflict kind the statement lists, applied to every mergeable set with <=2 atoms, must be rejected with an error under every order of the service list (never a panic, never a silent success); accept/reject, merged facts and Node-field routes must not depend on the order, also for acceptable differences and for the mergeable sets themselves.",
   note="The conflict catalogue mirrors the statement's list; single conflicts only.",
   ref="DESIGN.md §6 C05"),
 "C15": dict(engine="enum", cat="exploration",
   technique="bounded-exhaustive enumeration of single-service schemas (every service SDL of every world with <=3 atoms of a 45-atom type-system catalogue, plus 12 corner schemas) through the real remote introspector over a spec-shaped responder, compared fact-by-fact with the source",
   text="For each distinct service SDL in the bound: the schema reconstructed by the real ParallelRemoteSchemaIntrospector from a spec-compliant answer must have exactly the source's canonical facts (types, kinds, fields, argument names/types/defaults, wrappers, enum values, union members, implements, input fields and defaults, directive definitions with arguments and locations, deprecations, descriptions, root types); an error is allowed only when a standard client cannot rebuild the schema either.",
   note="Trusted: gqlref.IntrospectResolver as the spec-compliant responder, schemacanon; applied directives other than @deprecated and `repeatable` are excluded.",
   ref="DESIGN.md §6 C15"),
 "C16": dict(engine="enum", cat="exploration",
   technique="bounded-exhaustive enumeration of introspection operations (standard query, every selection tree <=K fields under __schema and __type(name:) for every type name, by literal and variable, decorated) over merged schemas, compared with a specification-shaped reference resolver; plus rebuild by a standard client and by a second gateway",
   text="For every merged schema with <=1 atom and every introspection operation in the bound the HTTP answer equals gqlref.Introspect over the merger's own output (lists as sets, null/empty description identified), __type(name:X) equals the __schema.types entry X, and FromIntrospection and the gateway's own remote introspector rebuild a schemacanon-equal schema from the standard query; an operation passes the gateway's validation iff it is valid against the schema rebuilt from the gateway's own answer; hand-written operations select one field twice with different arguments and put two directives on one selection.",
   note="Trusted: gqlref.IntrospectResolver (2018-shaped prelude of gqlparser 2.5.1), schemacanon.",
   ref="DESIGN.md §6 C16"),
 "C08": dict(engine="sched", cat="model_checking",
   technique="stateless model checking of the implementation: preemption-bounded exhaustive DFS (state-cached) over the schedules of the rewritten Gateway.Handler processing a client batch, at two granularities (operation subtrees as threads; every goroutine); plus a race complement pass that guards the exploration's data-race-freedom assumption (client batches and upload batches free-running in a -race build of the Engine A worker; a data race in the code under test is reported as a violation)",
   text="Every batch of length 0..3 over a 10-operation pool (queries on both services, cross-service, a mutation, introspection, an invalid operation, service errors, a transport fault): every schedule within the bound (operation-grained: PB<=1 for length<=2, PB 0 for length 3 quick; fine-grained PB<=1 on selected batches) must yield an array of N results with result i equal to the answer operation i receives alone, and no deadlock/fatal/leak; the same over a second pool of 6 operations (variables with defaults and no variables object - also held to the reference model's answer -, gateway-answered root fields next to failing service fields).",
   note="Trusted: vrewrite/vrt; the operation-grained mode fixes the default order inside one operation's goroutine subtree; schedules beyond the bound are not covered.",
   ref="DESIGN.md §6 C08"),
 "C13": dict(engine="sched", cat="model_checking",
   technique="stateless model checking of the implementation with map iteration order as an enumerated choice: deviation-bounded exhaustive DFS (state-cached) where a deviation is a preemption or a non-default order at one of the rewritten range-over-map sites",
   text="For each of ~320 (quick) operations every execution of the real handler with at most one deviation (thorough two) is run; the set of outcomes (data, set of errors, per-service multiset of sub-requests) must be a singleton; multipart operations whose upload variable is consumed by two services likewise (step-grained); two clients sending an operation each at the same time (default and custom queryer factory) must each receive the answer the operation gets alone.",
   note="Map iteration inside dependencies is not enumerated; bounded number of simultaneous deviations.",
   ref="DESIGN.md §6 C13"),
 "C14": dict(engine="sched", cat="model_checking",
   technique="explicit enumeration of all request histories up to a depth over a collision-built operation alphabet plus clock ticks, each replayed on a fresh caching gateway and a plain twin under a virtual clock; plus preemption-bounded exhaustive schedule exploration of two concurrent clients on one caching gateway",
   text="All histories of length <=3 (thorough 4) over 15 operations + tick for TTL in {0,1s,1h} (12k histories quick): every answer equals the plain planner's. Concurrent: 67 client pairs x 2 TTLs, every schedule with <=1 preemption at client granularity with RWMutex operations visible: every answer equals the plain planner's; no deadlock/fatal; 9 of the concurrent pairs let the clock jump past the TTL before the second client's request (the first request straddles the expiry).",
   note="Virtual clock (vrt); subscriptions interleaved with queries are covered in the C17/C18 harness only; data races on the shared plan are outside a cooperative scheduler's reach.",
   ref="DESIGN.md §6 C14"),
 "C17": dict(engine="sched", cat="model_checking",
   technique="stateless model checking of the implementation: preemption-bounded exhaustive DFS (state-cached) over the real subscription handler, entries and upstream reader running on scheduler-aware pipes, crossed with an exhaustive small scope of subscription operations and upstream event histories",
   text="For 8 subscription operations (0-2 other services, lists, value types, aliases) x upstream histories of length <=3 over {event, error payload, complete} x 1-2 subscriptions per connection x plain/caching planner, every schedule with <=1 preemption: per subscription id the data payloads equal the reference evaluation of each emitted event, in order, exactly once, never under another id; upstream error payloads arrive as errors; no fatal/deadlock/leak; also with an error message carrying a list payload in mid-stream, 11 s of upstream silence (read deadlines are modelled), the same entity emitted again after the services' data changed, and a slow reader while the heartbeat comes due.",
   note="Virtual time; one connection; schedules beyond the bound not covered.",
   ref="DESIGN.md §6 C17"),
 "C18": dict(engine="sched", cat="model_checking",
   technique="stateless model checking of the implementation: preemption-bounded exhaustive DFS (state-cached) over all goroutines of the real teardown path (handler, heartbeat, Listen, Close, upstream closer and reader) on scheduler-aware pipes, with heartbeat firings as bounded environment moves, crossed with client/upstream action scripts",
   text="117 (quick) / 680 (thorough) script pairs over 10 client actions and 5 upstream actions; every schedule with <=1 (thorough 2) preemption and <=1 (2) heartbeat firing inside the window opening once the subscription is established: no fatal or panic, no deadlock, handler returns, every goroutine started for the connection terminates, every upstream connection is closed, and the client's byte stream parses into complete websocket frames with complete graphql-ws messages; slow-reader scenarios (bounded receive buffer, write deadlines) incl. the id of a stopped subscription used again while its listener is still busy.",
   note="Virtual time (only orderings of ticker firings); preemption bound; gobwas and encoding/json are not instrumented.",
   ref="DESIGN.md §6 C18"),
}

NOT_YET = {}

def main():
    props = [json.loads(l) for l in open('/verif/properties.jsonl')]
    checks = []
    na = []
    for p in props:
        pid = p['id']
        c = CHECKS.get(pid)
        if c is None:
            na.append({"property_id": pid, "reason": NOT_YET.get(pid, "check not built yet in this session (see DESIGN.md §10 build order); not claimed until its check exists and passes on the unchanged tree")})
            continue
        checks.append({
            "property_id": pid,
            "quick_cmd": f"./check {pid} quick",
            "thorough_cmd": f"./check {pid} thorough",
            "evidence_file": f"/verif/evidence/{pid}.json",
            "replay_cmd_template": f"./check {pid} quick --replay {{path}}",
            "engine": c['engine'],
            "level_claimed": {"category": c['cat'], "text": c['text'], "design_ref": c['ref']},
            "level_note": c['note'],
            "technique": c['technique'],
        })
    m = {
        "version": 1,
        "setup_cmd": "./setup.sh",
        "hooks": {
            "guard": "verif",
            "enable": "cmd/vrewrite writes rewritten copies of /repo's sources (tagged //go:build verif) outside /repo and the checks build with `go build -tags verif -overlay <overlay.json>`; /repo itself contains no hook code",
            "baseline_off_cmd": "cd /repo && GOFLAGS=-mod=mod GOPROXY=off GOSUMDB=off go test -vet=off -count=1 ./...",
            "source_commits": [],
            "add_only": True,
        },
        "engines": [
            {"name": "sched", "path": "/verif/harness/explore, /verif/vrt, /verif/harness/cmd/vrewrite, /verif/harness/b", "serves_properties": sorted(k for k, v in CHECKS.items() if v['engine'] == 'sched'), "kind_free_text": ENGINE_B},
            {"name": "enum", "path": "/verif/harness/a, /verif/harness/gqlref", "serves_properties": sorted(k for k, v in CHECKS.items() if v['engine'] == 'enum'), "kind_free_text": ENGINE_A},
        ],
        "checks": checks,
        "not_applicable": na,
        "notes": "All checks are bounded-exhaustive (model checking family). Exit 0 = held on everything explored (possibly with KNOWN-FINDING lines, possibly exhaustive:false after an internal deadline), 1 = VIOLATION, 2 = harness/rewriter error. Known genuine defects are listed in /verif/known_findings.json.",
    }
    json.dump(m, open('/verif/MANIFEST.json', 'w'), indent=1)
    print("manifest:", len(checks), "checks,", len(na), "not claimed")

main()
