#!/bin/bash
# usage: runmutants_wt.sh <property id> [extra check ids...]
# vets every MUTANT_* delivered in the scratch worktree /tmp/mut/<id> and runs the property's own check (plus extras)
# against the worktree with the change applied (VERIF_REPO mode; /repo is not touched).
set -u
ID="$1"; shift
EXTRA="$*"
WT=${MUTROOT:-/tmp/mut}/$ID
VS=${VERIF_SNAPSHOT:-/verif}   # a frozen copy of /verif lets the checks run while /verif is being edited
export GOFLAGS=-mod=mod GOPROXY=off GOSUMDB=off GOTOOLCHAIN=local
git -C $WT checkout -q -- . 2>/dev/null
git -C $WT checkout -q --detach "$(git -C /repo rev-parse HEAD)" || { echo "cannot move $WT to HEAD"; exit 2; }
for m in $(ls -d $WT/MUTANT_* | sort); do
  k=$(basename $m)
  case "${ONLY:-}" in "") ;; *) [ "$k" = "$ONLY" ] || continue ;; esac
  echo "######## $ID $k"
  $VS/tools/vetmutant.sh $WT $m 2>&1 | cut -c1-300
  git -C $WT apply $m/patch.diff 2>/dev/null || git -C $WT apply -3 $m/patch.diff || { echo "PATCH DOES NOT APPLY to HEAD"; git -C $WT reset -q --hard; continue; }
  for c in $ID $EXTRA; do
    EV=/var/tmp/ev_r2/$ID-$k-$c; mkdir -p $EV
    OUT=$(VERIF_REPO=$WT VERIF_EVIDENCE_ROOT=$EV TIER=${TIER:-quick} $VS/check $c ${TIER:-quick} 2>&1)
    RC=$?
    V=$(echo "$OUT" | grep -c '^VIOLATION')
    FIRST=$(echo "$OUT" | grep -m1 -E 'violation|ERROR' | cut -c1-200)
    echo "$c rc=$RC violations=$V $FIRST"
  done
  git -C $WT reset -q --hard
done
